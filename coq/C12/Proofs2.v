(* C12 lemmas, part 2: LinearStateSpace *)
From Coq Require Import ZArith QArith List Bool Lia Lqa Setoid Morphisms.
From QE Require Import Base.Num Base.LinAlg Base.Gauss C12.Model.
Import ListNotations.
Local Open Scope nat_scope.
Local Open Scope Q_scope.

(* ---------------- moment_sequence *)
(* closed forms *)
Definition mu_closed (n : nat) (A mu0 : Qmat) (t : nat) : Qmat := mmul n n 1 (mpow n A t) mu0.
Definition Sigma_closed (n m : nat) (A C S0 : Qmat) (t : nat) : Qmat :=
  madd n n (mmul n n n (mmul n n n (mpow n A t) S0) (mtr n n (mpow n A t)))
           (msum n n t (fun j => mmul n n n (mmul n n n (mpow n A j) (outer n m C)) (mtr n n (mpow n A j)))).

Lemma obs_cov_proper n k l (G : Qmat) Ho S S' : meq n n S S' -> meq k k (obs_cov n k l G Ho S) (obs_cov n k l G Ho S').
Proof. intros E. unfold obs_cov. destruct Ho; now rewrite E. Qed.

Lemma moment_seq_length n m k l (A C G : Qmat) Ho t mu Sx :
  length (moment_seq n m k l A C G Ho t mu Sx) = t.
Proof. revert mu Sx. induction t; intros; simpl; [reflexivity|]. now rewrite IHt. Qed.

Theorem lss_moments n m k l (A C G : Qmat) Ho T : forall mu0 S0 t mx my Sx Sy,
  nth_error (moment_seq n m k l A C G Ho T mu0 S0) t = Some (mx, my, Sx, Sy) ->
  meq n 1 mx (mu_closed n A mu0 t) /\
  meq n n Sx (Sigma_closed n m A C S0 t) /\
  my = mmul k n 1 G mx /\ Sy = obs_cov n k l G Ho Sx.
Proof.
  induction T; intros mu0 S0 t mx my Sx Sy Hnth.
  - destruct t; discriminate.
  - destruct t as [|t]; simpl in Hnth.
    + injection Hnth as <- <- <- <-. repeat split.
      * unfold mu_closed. simpl. now rewrite mmul_id_l.
      * unfold Sigma_closed. simpl. rewrite mmul_id_l, mtr_mid, mmul_id_r. now rewrite madd_zero_r.
    + apply IHT in Hnth. destruct Hnth as [Hmu [HS [Hy HSy]]]. repeat split; try assumption.
      * rewrite Hmu. unfold mu_closed. rewrite (mpow_succ_r n A t). now rewrite mmul_assoc.
      * rewrite HS. unfold Sigma_closed. simpl msum.
        rewrite (mpow_succ_r n A t). rewrite mtr_mmul.
        rewrite mmul_madd_distr_l, mmul_madd_distr_r.
        rewrite !mmul_assoc.
        intros a b Ha Hb. mat_entries. ring.
Qed.

(* ---------------- impulse_response *)
Lemma impulse_loop_length n m k (A C G : Qmat) j : forall Ap,
  length (fst (impulse_loop n m k A C G j Ap)) = j /\ length (snd (impulse_loop n m k A C G j Ap)) = j.
Proof.
  induction j; intros Ap; simpl; [split; reflexivity|].
  destruct (impulse_loop n m k A C G j (mmul n n n Ap A)) as [xs ys] eqn:E.
  specialize (IHj (mmul n n n Ap A)). rewrite E in IHj. simpl in *. lia.
Qed.

Lemma impulse_loop_spec n m k (A C G : Qmat) j : forall Ap p i xc yc,
  meq n n Ap (mpow n A p) ->
  nth_error (fst (impulse_loop n m k A C G j Ap)) i = Some xc ->
  nth_error (snd (impulse_loop n m k A C G j Ap)) i = Some yc ->
  meq n m xc (mmul n n m (mpow n A (p + i)) C) /\
  meq k m yc (mmul k n m G (mmul n n m (mpow n A (p + i)) C)).
Proof.
  induction j; intros Ap p i xc yc HA Hx Hy; simpl in Hx, Hy.
  - destruct i; discriminate.
  - destruct (impulse_loop n m k A C G j (mmul n n n Ap A)) as [xs ys] eqn:E.
    destruct i as [|i]; simpl in Hx, Hy.
    + injection Hx as <-. injection Hy as <-. rewrite Nat.add_0_r. now rewrite HA.
    + replace (p + S i)%nat with (S p + i)%nat by lia.
      apply (IHj (mmul n n n Ap A) (S p) i xc yc).
      * rewrite HA. symmetry. apply mpow_succ_r.
      * now rewrite E.
      * now rewrite E.
Qed.

Theorem lss_impulse n m k (A C G : Qmat) j i xc yc :
  nth_error (fst (impulse_response n m k A C G j)) i = Some xc ->
  nth_error (snd (impulse_response n m k A C G j)) i = Some yc ->
  meq n m xc (mmul n n m (mpow n A i) C) /\
  meq k m yc (mmul k n m G (mmul n n m (mpow n A i) C)).
Proof.
  unfold impulse_response.
  destruct (impulse_loop n m k A C G j A) as [xs ys] eqn:E. simpl.
  destruct i as [|i]; simpl; intros Hx Hy.
  - injection Hx as <-. injection Hy as <-. simpl. now rewrite mmul_id_l.
  - change (S i) with (1 + i)%nat.
    apply (impulse_loop_spec n m k A C G j A 1 i xc yc).
    + symmetry. apply mpow_1.
    + now rewrite E.
    + now rewrite E.
Qed.

Lemma impulse_response_length n m k (A C G : Qmat) j :
  length (fst (impulse_response n m k A C G j)) = S j /\ length (snd (impulse_response n m k A C G j)) = S j.
Proof.
  unfold impulse_response. pose proof (impulse_loop_length n m k A C G j A) as HL.
  destruct (impulse_loop n m k A C G j A) as [xs ys]. simpl in *. lia.
Qed.

(* ---------------- geometric_sums *)
Theorem lss_geometric n k p (A G : Qmat) beta xt Sx Sy :
  geometric_sums n k p A G beta xt = Some (Sx, Sy) ->
  meq n p (mmul n n p (msub n n (mid n) (mscale n n beta A)) Sx) xt /\ Sy = mmul k n p G Sx.
Proof.
  unfold geometric_sums.
  destruct (solve_checked n p (msub n n (mid n) (mscale n n beta A)) xt) as [X|] eqn:E; [|discriminate].
  intros E2. injection E2 as <- <-. split; [|reflexivity]. now apply solve_checked_correct.
Qed.

(* ---------------- simulate_linear_model / simulate *)
Lemma fold_acc_sumQ (f : nat -> Q) n init :
  fold_left (fun acc j => nadd acc (f j)) (seq 0 n) init == init + sumQ n f.
Proof.
  induction n.
  - simpl. ring.
  - rewrite seq_S, fold_left_app. simpl. rewrite nadd_Q, IHn. ring.
Qed.

Lemma vget_sim_step n (A : Qmat) x v i : (i < n)%nat ->
  vget (sim_step n A x v) i == vget v i + sumQ n (fun j => get A i j * vget x j).
Proof.
  intros Hi. unfold sim_step. rewrite vget_vmk by assumption.
  rewrite (fold_acc_sumQ (fun j => nmul (get A i j) (vget x j))).
  apply Qplus_comp; [reflexivity|]. apply sumQ_ext. intros. apply nmul_Q.
Qed.

Lemma sim_cols_length {T} `{Num T} n (A : list (list T)) vs : forall x, length (sim_cols n A x vs) = S (length vs).
Proof. induction vs; intros; simpl; [reflexivity|]. now rewrite IHvs. Qed.

Lemma sim_cols_0 {T} `{Num T} n (A : list (list T)) vs x d : nth 0 (sim_cols n A x vs) d = x.
Proof. destruct vs; reflexivity. Qed.

Lemma sim_cols_step {T} `{Num T} n (A : list (list T)) vs : forall x t d dv, (t < length vs)%nat ->
  nth (S t) (sim_cols n A x vs) d = sim_step n A (nth t (sim_cols n A x vs) d) (nth t vs dv).
Proof.
  induction vs as [|v r IH]; intros x t d dv Ht; simpl in Ht; [lia|].
  destruct t as [|t].
  - simpl. now rewrite sim_cols_0.
  - change (nth (S (S t)) (sim_cols n A x (v :: r)) d) with (nth (S t) (sim_cols n A (sim_step n A x v) r) d).
    change (nth (S t) (sim_cols n A x (v :: r)) d) with (nth t (sim_cols n A (sim_step n A x v) r) d).
    simpl nth at 3. apply IH. lia.
Qed.

(* the jitted kernel: x[:,0] = x0 and x[:,t+1] = v[:,t] + A x[:,t] *)
Theorem simulate_linear_model_spec n (A : Qmat) x0 v ts x :
  simulate_linear_model n A x0 v ts = Some x ->
  (forall i, (i < n)%nat -> get x i 0 = vget x0 i) /\
  (forall t i, (S t < ts)%nat -> (i < n)%nat ->
     get x i (S t) == get v i t + sumQ n (fun j => get A i j * get x j t)).
Proof.
  unfold simulate_linear_model. destruct ts as [|ts1]; [discriminate|].
  intros E. injection E as <-. split.
  - intros i Hi. rewrite get_mk by lia. rewrite sim_cols_0. now rewrite vget_vmk.
  - intros t i Ht Hi. rewrite get_mk by lia.
    rewrite (sim_cols_step n A _ _ t [] []) by (rewrite map_length, seq_length; lia).
    rewrite vget_sim_step by assumption.
    apply Qplus_comp.
    + rewrite (nth_indep _ [] (matcol n v 0)) by (rewrite map_length, seq_length; lia).
      rewrite (map_nth (matcol n v)). rewrite seq_nth by lia. unfold matcol. now rewrite vget_vmk.
    + apply sumQ_ext. intros j Hj. rewrite get_mk by lia. reflexivity.
Qed.

(* simulate: x_{t+1} = A x_t + C w_{t+1},  y_t = G x_t + H v_t  for the shocks supplied *)
Theorem lss_simulate_dynamics n m k l (A C G : Qmat) Ho ts x0 w v2 x y :
  simulate n m k l A C G Ho ts x0 w v2 = Some (x, y) ->
  (forall i, (i < n)%nat -> get x i 0 = vget x0 i) /\
  (forall t i, (S t < ts)%nat -> (i < n)%nat ->
     get x i (S t) == sumQ n (fun j => get A i j * get x j t) + sumQ m (fun j => get C i j * get w j t)) /\
  (forall t i, (t < ts)%nat -> (i < k)%nat ->
     get y i t == sumQ n (fun j => get G i j * get x j t) +
                  match Ho with None => 0 | Some Hm => sumQ l (fun j => get Hm i j * get v2 j t) end).
Proof.
  unfold simulate.
  destruct (simulate_linear_model n A x0 (mmul n m (ts - 1) C w) ts) as [x1|] eqn:E; [|discriminate].
  intros E2. injection E2 as <- <-.
  apply simulate_linear_model_spec in E. destruct E as [H0 Hs].
  split; [exact H0|split].
  - intros t i Ht Hi. rewrite Hs by assumption. rewrite get_mmul by lia. ring.
  - intros t i Ht Hi. destruct Ho as [Hm|].
    + rewrite get_madd, !get_mmul by assumption. reflexivity.
    + rewrite get_mmul by assumption. ring.
Qed.

(* ---------------- replicate: column j is the last state of the j-th simulated path *)
Theorem lss_replicate_spec n m k l (A C G : Qmat) Ho T' draws v x y :
  replicate n m k l A C G Ho T' draws v = Some (x, y) ->
  (forall j i x0 w, (i < n)%nat -> nth_error draws j = Some (x0, w) ->
     exists xj, simulate_linear_model n A x0 (mmul n m T' C w) (S T') = Some xj /\ get x i j = get xj i T') /\
  (forall j i, (j < length draws)%nat -> (i < k)%nat ->
     get y i j == sumQ n (fun a => get G i a * get x a j) +
                  match Ho with None => 0 | Some Hm => sumQ l (fun a => get Hm i a * get v a j) end).
Proof.
  unfold replicate. intros E. injection E as <- <-. split.
  - intros j i x0 w Hi Hn.
    assert (Hj : (j < length draws)%nat) by (apply nth_error_Some; congruence).
    eexists. split; [reflexivity|].
    rewrite get_mk by assumption.
    set (f := fun d : list Q * Qmat =>
                match simulate_linear_model n A (fst d) (mmul n m T' C (snd d)) (S T') with
                | None => [] | Some x => matcol n x T' end).
    rewrite (nth_indep _ [] (f (x0, w))) by (now rewrite map_length).
    rewrite (map_nth f). rewrite (nth_error_nth _ _ _ Hn). unfold f. simpl fst. simpl snd.
    unfold simulate_linear_model, matcol. now rewrite vget_vmk.
  - intros j i Hj Hi. destruct Ho as [Hm|].
    + rewrite get_madd, !get_mmul by assumption. reflexivity.
    + rewrite get_mmul by assumption. ring.
Qed.

(* ---------------- stationary_distributions: the certified core *)
Lemma lyap_kron_spec d (A B X : Qmat) :
  lyap_kron d A B = Some X -> meq d d X (madd d d (mmul d d d (mmul d d d A X) (mtr d d A)) B).
Proof.
  unfold lyap_kron.
  destruct (solve_checked (d * d) 1 _ _) as [v|]; [|discriminate].
  destruct (mall2 d d neqb _ _) eqn:E; [|discriminate].
  intros E2. injection E2 as <-. now apply mall2_meq.
Qed.

(* C12 lemmas, part 6: completeness of the Gauss-Jordan solver over Q (an injective system is solved), and
   "the recursion is defined => batch_conditional is defined": if every innovation covariance F_s met along the
   record is invertible then Var(y_0..y_{t-1}) has a trivial kernel, hence the solve of batch_conditional succeeds. *)
From Coq Require Import ZArith QArith Qabs List Bool Lia Lqa Setoid Morphisms.
From QE Require Import Base.Num Base.LinAlg Base.Gauss C12.Model C12.Proofs C12.Proofs3 C12.Proofs4.
Import ListNotations.
Local Open Scope nat_scope.
Local Open Scope Q_scope.

(* ---------------- completeness of Gauss.solve *)
Lemma nabs_nonneg (x : Q) : 0 <= nabs x.
Proof.
  unfold nabs. destruct (nltb x nzero) eqn:E.
  - apply Qltb_lt in E. change (@nzero Q NumQ) with 0 in *. rewrite nsub_Q. lra.
  - change (@nzero Q NumQ) with 0 in *. destruct (Qlt_le_dec x 0) as [Hl|Hl]; [|exact Hl].
    apply Qltb_lt in Hl. change (nltb x 0) with (Qltb x 0) in E. congruence.
Qed.

Lemma nabs_zero (x : Q) : nabs x == 0 -> x == 0.
Proof.
  unfold nabs. destruct (nltb x nzero) eqn:E; change (@nzero Q NumQ) with 0 in *.
  - rewrite nsub_Q. lra.
  - auto.
Qed.

Lemma nabs_of_zero (x : Q) : x == 0 -> nabs x == 0.
Proof.
  intros Hx. unfold nabs. destruct (nltb x nzero) eqn:E; change (@nzero Q NumQ) with 0 in *.
  - rewrite nsub_Q. lra.
  - exact Hx.
Qed.

Lemma pivot_scan_zero (M : Qmat) c cnt : forall best i,
  get M (pivot_scan M c best i cnt) c == 0 ->
  get M best c == 0 /\ forall r, (i <= r < i + cnt)%nat -> get M r c == 0.
Proof.
  induction cnt; intros best i Hz; simpl in Hz.
  - split; [exact Hz|intros; lia].
  - destruct (Qltb (nabs (get M best c)) (nabs (get M i c))) eqn:E.
    + destruct (IHcnt i (S i) Hz) as [H1 H2].
      apply Qltb_lt in E. pose proof (nabs_nonneg (get M best c)). rewrite (nabs_of_zero _ H1) in E. lra.
    + destruct (IHcnt best (S i) Hz) as [H1 H2]. split; [exact H1|].
      intros r Hr. destruct (Nat.eq_dec r i) as [->|Hne]; [|apply H2; lia].
      apply nabs_zero.
      assert (Hle : nabs (get M i c) <= nabs (get M best c)).
      { destruct (Qlt_le_dec (nabs (get M best c)) (nabs (get M i c))) as [Hl|Hl]; [|exact Hl].
        apply Qltb_lt in Hl. congruence. }
      pose proof (nabs_nonneg (get M i c)). rewrite (nabs_of_zero _ H1) in Hle. lra.
Qed.

Section SolveComplete.
Variables (n m : nat).
Let w := (n + m)%nat.

(* v (a vector, as a function) is in the kernel of the left n x n block of M *)
Definition kerl (M : Qmat) (v : nat -> Q) : Prop :=
  forall i, (i < n)%nat -> sumQ n (fun l => get M i l * v l) == 0.

Lemma kerl_ext M M' v : (forall i l, (i < n)%nat -> (l < n)%nat -> get M i l == get M' i l) -> kerl M' v -> kerl M v.
Proof.
  intros E H i Hi. rewrite <- (H i Hi). apply sumQ_ext. intros l Hl. now rewrite E.
Qed.

Lemma gj_step_kernel c (M M' : Qmat) v :
  (c < n)%nat -> gj_step n w c M = Some M' -> kerl M' v -> kerl M v.
Proof.
  intros Hc Hstep HK. unfold gj_step in Hstep.
  destruct (pivot_row_range n m M c Hc) as [Hp1 Hp2].
  set (p := pivot_row n M c) in *. set (piv := get M p c) in *.
  destruct (neqb piv nzero) eqn:Epiv; [discriminate|]. injection Hstep as <-.
  assert (Hpiv : ~ piv == 0).
  { intro Hz. apply Qeq_bool_iff in Hz. change (neqb piv nzero) with (Qeq_bool piv 0) in Epiv. congruence. }
  set (sg := fun i : nat => if Nat.eqb i c then p else if Nat.eqb i p then c else i).
  set (M1 := swap_rows n w c p M) in *. set (M2 := scale_row n w c piv M1) in *.
  assert (G1 : forall i j, (i < n)%nat -> (j < n)%nat -> get M1 i j = get M (sg i) j).
  { intros. unfold M1, swap_rows. rewrite get_mk by (unfold w; lia). reflexivity. }
  assert (G2 : forall i j, (i < n)%nat -> (j < n)%nat ->
               get M2 i j == if Nat.eqb i c then get M1 i j / piv else get M1 i j).
  { intros. unfold M2, scale_row. rewrite get_mk by (unfold w; lia).
    destruct (Nat.eqb i c); [apply ndiv_Q|reflexivity]. }
  assert (G3 : forall i j, (i < n)%nat -> (j < n)%nat ->
               get (elim_col n w c M2) i j ==
               if Nat.eqb i c then get M2 i j else get M2 i j - get M2 i c * get M2 c j).
  { intros. unfold elim_col. rewrite get_mk by (unfold w; lia).
    destruct (Nat.eqb i c); [reflexivity|]. rewrite nsub_Q, nmul_Q. reflexivity. }
  assert (Hsg : forall i, (i < n)%nat -> (sg i < n)%nat).
  { intros i Hi. unfold sg. destruct (Nat.eqb i c); [lia|]. destruct (Nat.eqb i p); lia. }
  assert (Kc : sumQ n (fun l => get M2 c l * v l) == 0).
  { rewrite <- (HK c Hc). apply sumQ_ext. intros l Hl. rewrite G3 by assumption. now rewrite Nat.eqb_refl. }
  assert (K2 : kerl M2 v).
  { intros i Hi. destruct (Nat.eqb i c) eqn:Eic.
    - apply Nat.eqb_eq in Eic. subst i. exact Kc.
    - rewrite (sumQ_ext n _ (fun l => get (elim_col n w c M2) i l * v l + get M2 i c * (get M2 c l * v l))).
      + rewrite sumQ_add, sumQ_scale_l, Kc, (HK i Hi). ring.
      + intros l Hl. rewrite G3 by assumption. rewrite Eic. ring. }
  assert (K1 : kerl M1 v).
  { intros i Hi. destruct (Nat.eqb i c) eqn:Eic.
    - rewrite (sumQ_ext n _ (fun l => piv * (get M2 i l * v l))).
      + rewrite sumQ_scale_l, (K2 i Hi). ring.
      + intros l Hl. rewrite G2 by assumption. rewrite Eic. field. exact Hpiv.
    - rewrite <- (K2 i Hi). apply sumQ_ext. intros l Hl. rewrite G2 by assumption. now rewrite Eic. }
  intros i Hi.
  assert (Hinv : sg (sg i) = i).
  { unfold sg. destruct (Nat.eqb i c) eqn:E1.
    - apply Nat.eqb_eq in E1. subst i.
      destruct (Nat.eqb p c) eqn:E2; [apply Nat.eqb_eq in E2; lia|]. now rewrite Nat.eqb_refl.
    - destruct (Nat.eqb i p) eqn:E2.
      + apply Nat.eqb_eq in E2. now rewrite Nat.eqb_refl.
      + now rewrite E1, E2. }
  rewrite <- (K1 (sg i) (Hsg i Hi)). apply sumQ_ext. intros l Hl.
  rewrite G1 by (try apply Hsg; assumption). now rewrite Hinv.
Qed.

Lemma gj_step_none c (M : Qmat) :
  (c < n)%nat -> idcols n c M -> gj_step n w c M = None -> exists v, kerl M v /\ v c == 1.
Proof.
  intros Hc Hid Hstep. unfold gj_step in Hstep.
  set (p := pivot_row n M c) in *.
  destruct (neqb (get M p c) nzero) eqn:Epiv; [|discriminate].
  change (neqb (get M p c) nzero) with (Qeq_bool (get M p c) 0) in Epiv. apply Qeq_bool_iff in Epiv.
  unfold p, pivot_row in Epiv. apply pivot_scan_zero in Epiv. destruct Epiv as [Hcc Hrest].
  assert (Hz : forall r, (c <= r < n)%nat -> get M r c == 0).
  { intros r Hr. destruct (Nat.eq_dec r c) as [->|]; [exact Hcc|apply Hrest; lia]. }
  set (g := fun l : nat => if Nat.ltb l c then - get M l c else 0).
  exists (fun l => g l + (if Nat.eqb c l then 1 else 0)). split.
  - intros i Hi.
    rewrite (sumQ_ext n _ (fun l => (if Nat.eqb i l then 1 else 0) * g l + (if Nat.eqb c l then 1 else 0) * get M i c)).
    + rewrite sumQ_add. rewrite (sumQ_delta_l n i g Hi). rewrite (sumQ_delta_l n c (fun _ => get M i c) Hc).
      unfold g. destruct (Nat.ltb i c) eqn:E.
      * ring.
      * apply Nat.ltb_ge in E. rewrite Hz by lia. ring.
    + intros l Hl. unfold g. destruct (Nat.ltb l c) eqn:E.
      * apply Nat.ltb_lt in E. rewrite (Hid i l Hi E). unfold delta.
        destruct (Nat.eqb c l) eqn:E2; [apply Nat.eqb_eq in E2; lia|]. ring.
      * apply Nat.ltb_ge in E. destruct (Nat.eqb c l) eqn:E2.
        -- apply Nat.eqb_eq in E2. subst l. ring.
        -- ring.
  - unfold g. rewrite Nat.ltb_irrefl, Nat.eqb_refl. ring.
Qed.

Lemma gj_loop_complete (A : Qmat) cnt : forall c (M : Qmat),
  (c + cnt <= n)%nat -> idcols n c M ->
  (forall v, kerl M v -> kerl A v) ->
  (forall v, kerl A v -> forall l, (l < n)%nat -> v l == 0) ->
  exists M', gj_loop n w c cnt M = Some M'.
Proof.
  induction cnt; intros c M Hle Hid HK Hinj; simpl.
  - eexists. reflexivity.
  - destruct (gj_step n w c M) as [M1|] eqn:Es.
    + destruct (gj_step_spec n m c M M1 M1 ltac:(lia) Es Hid) as [Hid1 _].
      apply (IHcnt (S c) M1); [lia|exact Hid1| |exact Hinj].
      intros v Hv. apply HK. eapply gj_step_kernel; [|exact Es|exact Hv]. lia.
    + exfalso. destruct (gj_step_none c M ltac:(lia) Hid Es) as [v [Hv Hvc]].
      pose proof (Hinj v (HK v Hv) c ltac:(lia)) as H0. rewrite H0 in Hvc. discriminate Hvc.
Qed.

Theorem solve_complete (A B : Qmat) :
  (forall v : nat -> Q, kerl A v -> forall l, (l < n)%nat -> v l == 0) ->
  exists X, solve n m A B = Some X.
Proof.
  intros Hinj. unfold solve. fold w.
  destruct (gj_loop_complete A n 0 (mhcat n n m A B)) as [M' E]; [lia|intros i c' _ Hc'; lia| |exact Hinj|].
  - intros v. apply kerl_ext. intros i l Hi Hl. unfold mhcat. rewrite get_mk by lia.
    replace (Nat.ltb l n) with true by (symmetry; apply Nat.ltb_lt; lia). reflexivity.
  - rewrite E. eexists. reflexivity.
Qed.

Theorem solve_checked_complete (A B : Qmat) :
  (forall v : nat -> Q, kerl A v -> forall l, (l < n)%nat -> v l == 0) ->
  exists X, solve_checked n m A B = Some X.
Proof.
  intros Hinj. destruct (solve_complete A B Hinj) as [X E]. unfold solve_checked. rewrite E.
  assert (Hc : mall2 n m neqb (mmul n n m A X) B = true).
  { pose proof (solve_correct n m A B X E) as HS. unfold mall2.
    apply forallb_forall. intros i Hi. apply forallb_forall. intros j Hj.
    apply in_seq in Hi. apply in_seq in Hj. apply Qeq_bool_iff. apply HS; lia. }
  rewrite Hc. eexists. reflexivity.
Qed.
End SolveComplete.

(* ---------------- finite sums of matrices: a few more laws *)
Lemma msum_madd n m t (F G : nat -> Qmat) :
  meq n m (msum n m t (fun s => madd n m (F s) (G s))) (madd n m (msum n m t F) (msum n m t G)).
Proof. intros i j Hi Hj. rewrite get_madd, !get_msum by assumption. rewrite <- sumQ_add. apply sumQ_ext. intros. now rewrite get_madd. Qed.

Lemma msum_mzero n m t : meq n m (msum n m t (fun _ => mzero n m)) (mzero n m).
Proof. intros i j Hi Hj. rewrite get_msum, get_mzero by assumption. rewrite (sumQ_ext t _ (fun _ => 0)); [apply sumQ_zero|]. intros. now rewrite get_mzero. Qed.

Lemma msum_exchange n m t u (F : nat -> nat -> Qmat) :
  meq n m (msum n m t (fun r => msum n m u (fun s => F r s))) (msum n m u (fun s => msum n m t (fun r => F r s))).
Proof.
  intros i j Hi Hj. rewrite !get_msum by assumption.
  rewrite (sumQ_ext t _ (fun r => sumQ u (fun s => get (F r s) i j))) by (intros; now rewrite get_msum).
  rewrite (sumQ_ext u _ (fun s => sumQ t (fun r => get (F r s) i j))) by (intros; now rewrite get_msum).
  apply sumQ_exchange.
Qed.

(* ---------------- Var(y_0 .. y_{t-1}) has a trivial kernel when the recursion is defined *)
Section BatchDefined.
Variables (n m k l : nat) (A C G Hm xh0 S0 : Qmat).
Hypothesis Hk : (0 < k)%nat.
Hypothesis Hsym : msym n S0.
Let R := outer k l Hm.
Let Gt := mtr k n G.
Let SY := Syyb n m k l A C G Hm S0.
Let SX := Sxyb n m k A C G S0.
Let P := Pv n m A C S0.
Let Z := @mzero Q _ k 1.

(* block form of "Var(y) v = 0 -> v = 0" *)
Definition blk_inj (t : nat) : Prop :=
  forall vb : nat -> Qmat,
  (forall r, (r < t)%nat -> meq k 1 (msum k 1 t (fun s => mmul k k 1 (SY r s) (vb s))) Z) ->
  forall s, (s < t)%nat -> meq k 1 (vb s) Z.

Lemma blk_inj_step t ys Kb st y st' :
  length ys = t ->
  inv n m k l A C G Hm xh0 S0 t ys Kb st ->
  update n m k l A C G Hm st y = Some st' ->
  blk_inj t -> blk_inj (S t).
Proof.
  intros Hlen HI HU IH vb Hv.
  destruct HI as [I1 [I2 _]]. destruct st as [xh Sg]. simpl in I2.
  fold SY in I1. fold SX in I1, I2. fold P in I2.
  unfold update in HU.
  destruct (prior_to_filtered n k l G Hm (xh, Sg) y) as [sf|] eqn:EP; [|discriminate].
  apply prior_to_filtered_inv in EP. destruct EP as [Fi [[_ HL] _]]. simpl in HL. clear HU.
  unfold kal_F in HL. fold Gt R in HL.
  set (w := vb t).
  set (T1 := msum n 1 t (fun s => mmul n k 1 (SX t s) (vb s))).
  assert (J2 : meq n n (msum n n t (fun s => mmul n k n (Kb s) (mtr n k (SX t s)))) (msub n n (P t) Sg)).
  { intros i j Hi Hj. specialize (I2 i j Hi Hj). rewrite get_msub in I2 by assumption. mat_entries. lra. }
  (* rows r < t and row t of the hypothesis *)
  assert (Er : forall r, (r < t)%nat ->
            meq k 1 (madd k 1 (msum k 1 t (fun s => mmul k k 1 (SY r s) (vb s))) (mmul k k 1 (SY r t) w)) Z).
  { intros r Hr. apply (Hv r). lia. }
  assert (Et : meq k 1 (madd k 1 (msum k 1 t (fun s => mmul k k 1 (SY t s) (vb s))) (mmul k k 1 (SY t t) w)) Z).
  { apply (Hv t). lia. }
  (* star: T1 + (P_t - Sigma_t) G^T w = 0 *)
  assert (Star : meq n 1 (madd n 1 T1 (mmul n n 1 (msub n n (P t) Sg) (mmul n k 1 Gt w))) (mzero n 1)).
  { transitivity (msum n 1 t (fun r => mmul n k 1 (Kb r)
                   (madd k 1 (msum k 1 t (fun s => mmul k k 1 (SY r s) (vb s))) (mmul k k 1 (SY r t) w)))).
    - rewrite (msum_ext n 1 t _ (fun r => madd n 1
                 (msum n 1 t (fun s => mmul n k 1 (mmul n k k (Kb r) (SY r s)) (vb s)))
                 (mmul n n 1 (mmul n k n (Kb r) (mtr n k (SX t r))) (mmul n k 1 Gt w)))).
      2:{ intros r Hr. rewrite mmul_madd_distr_l. apply madd_proper.
          - rewrite mmul_msum_distr_l. apply msum_ext. intros s Hs. now rewrite mmul_assoc.
          - unfold SY, Syyb. replace (Nat.eqb r t) with false by (symmetry; apply Nat.eqb_neq; lia).
            fold Gt. unfold SX. rewrite (mtr_Sxyb n m k A C G S0 Hk Hsym). now rewrite !mmul_assoc. }
      rewrite msum_madd. apply madd_proper.
      + unfold T1. rewrite msum_exchange. apply msum_ext. intros s Hs.
        rewrite <- mmul_msum_distr_r. now rewrite (I1 s Hs).
      + rewrite <- mmul_msum_distr_r. now rewrite J2.
    - rewrite (msum_ext n 1 t _ (fun _ => mzero n 1)); [apply msum_mzero|].
      intros r Hr. rewrite (Er r Hr). apply mmul_mzero_r. }
  (* row t in terms of T1 *)
  assert (Et' : meq k 1 (madd k 1 (mmul k n 1 G T1)
                           (mmul k k 1 (madd k k (mmul k n k (mmul k n n G (P t)) Gt) R) w)) Z).
  { rewrite <- Et. apply madd_proper.
    - unfold T1. rewrite mmul_msum_distr_l. apply msum_ext. intros s Hs.
      unfold SY, Syyb. replace (Nat.eqb t s) with false by (symmetry; apply Nat.eqb_neq; lia).
      fold Gt. unfold SX, Sxyb. fold Gt. now rewrite !mmul_assoc.
    - unfold SY, Syyb. rewrite Nat.eqb_refl. fold Gt R. unfold P. now rewrite cov_diag. }
  (* F w = 0, hence w = 0 *)
  assert (HF : meq k 1 (mmul k k 1 (madd k k (mmul k n k (mmul k n n G Sg) Gt) R) w) Z).
  { assert (GS : meq k 1 (mmul k n 1 G (madd n 1 T1 (mmul n n 1 (msub n n (P t) Sg) (mmul n k 1 Gt w)))) Z)
      by (rewrite Star; apply mmul_mzero_r).
    revert GS Et'. mdistr. intros GS Et' i j Hi Hj.
    specialize (GS i j Hi Hj). specialize (Et' i j Hi Hj). unfold Z in *.
    rewrite get_mzero in * by assumption. revert GS Et'. mat_entries. intros. lra. }
  assert (Hw : meq k 1 w Z).
  { rewrite <- (mmul_id_l k 1 w). rewrite <- HL. rewrite mmul_assoc, HF. apply mmul_mzero_r. }
  (* the first t blocks *)
  assert (Hold : forall r, (r < t)%nat -> meq k 1 (msum k 1 t (fun s => mmul k k 1 (SY r s) (vb s))) Z).
  { intros r Hr. pose proof (Er r Hr) as E. rewrite Hw in E. unfold Z in E at 1. rewrite mmul_mzero_r in E.
    rewrite madd_zero_r in E. exact E. }
  intros s Hs. destruct (Nat.eq_dec s t) as [->|Hne]; [exact Hw|].
  apply (IH vb Hold). lia.
Qed.

Lemma blk_inj_all ys : forall st,
  kalman_final n m k l A C G Hm (xh0, S0) ys = Some st -> blk_inj (length ys).
Proof.
  induction ys as [|y ys IH] using rev_ind; intros st HF.
  - intros vb _ s Hs. simpl in Hs. lia.
  - rewrite kalman_final_snoc in HF.
    destruct (kalman_final n m k l A C G Hm (xh0, S0) ys) as [s0|] eqn:E; [|discriminate].
    destruct (inv_all n m k l A C G Hm xh0 S0 Hk Hsym ys s0 E) as [Kb HI].
    rewrite app_length. simpl length. rewrite Nat.add_1_r.
    eapply blk_inj_step; [reflexivity|exact HI|exact HF|]. now apply (IH s0).
Qed.
End BatchDefined.

Section BatchDefined2.
Variables (n m k l : nat) (A C G Hm xh0 S0 : Qmat).
Hypothesis Hk : (0 < k)%nat.
Hypothesis Hsym : msym n S0.

Lemma flat_injective t :
  blk_inj n m k l A C G Hm S0 t ->
  forall v : nat -> Q, kerl (t * k) (flat_sq k t (Syyb n m k l A C G Hm S0)) v ->
  forall i, (i < t * k)%nat -> v i == 0.
Proof.
  intros HB v Hker.
  set (vb := fun s : nat => mk k 1 (fun a _ => v (s * k + a)%nat)).
  assert (Hz : forall s, (s < t)%nat -> meq k 1 (vb s) (mzero k 1)).
  { apply HB. intros r Hr a j Ha Hj. assert (j = 0%nat) by lia. subst j.
    rewrite get_mzero by lia. rewrite get_msum by lia.
    assert (Hi : (r * k + a < t * k)%nat) by nia.
    rewrite <- (Hker (r * k + a)%nat Hi). rewrite sumQ_blocks.
    apply sumQ_ext. intros s Hs. rewrite get_mmul by lia. apply sumQ_ext. intros b Hb.
    unfold vb. rewrite get_mk by lia.
    unfold flat_sq. rewrite get_mk by nia.
    destruct (divmod_block k r a Ha) as [-> ->]. destruct (divmod_block k s b Hb) as [-> ->]. reflexivity. }
  intros i Hi. destruct (block_index k t i Hk Hi) as [Hb Hm'].
  specialize (Hz (i / k)%nat Hb (i mod k)%nat 0%nat Hm' ltac:(lia)).
  unfold vb in Hz. rewrite get_mk, get_mzero in Hz by lia.
  rewrite <- Hz. replace (i / k * k + i mod k)%nat with i; [reflexivity|].
  rewrite (Nat.div_mod i k) at 1 by lia. lia.
Qed.

Theorem kalman_defined_batch_defined ys st :
  kalman_final n m k l A C G Hm (xh0, S0) ys = Some st ->
  exists b, batch_conditional n m k l A C G Hm xh0 S0 ys = Some b.
Proof.
  intros HF. pose proof (blk_inj_all n m k l A C G Hm xh0 S0 Hk Hsym ys st HF) as HB.
  unfold batch_conditional. set (t := length ys) in *.
  destruct (joint_law n m k l A C G Hm xh0 S0 t) as [[[[mx my] Sxx] Sxy] Syy] eqn:EJ.
  apply (joint_law_blocks n m k l A C G Hm xh0 S0 Hk) in EJ. destruct EJ as [_ [_ [_ [_ Eyy]]]].
  unfold gauss_condition.
  destruct (solve_checked_complete (t * k) (n + 1) Syy
              (mhcat (t * k) n 1 (mtr n (t * k) Sxy) (msub (t * k) 1 (stack_obs k ys) my))) as [X EX].
  - intros v Hv. apply (flat_injective t HB v).
    apply (kerl_ext (t * k) _ Syy); [|exact Hv].
    intros i j Hi Hj. symmetry. now apply Eyy.
  - rewrite EX. eexists. reflexivity.
Qed.

(* the recursion's own definedness suffices: after any non-empty record the state is the conditional law *)
Theorem kalman_is_conditioning ys xk Sk :
  ys <> [] ->
  last (kalman_path n m k l A C G Hm (xh0, S0) ys) None = Some (xk, Sk) ->
  exists xb Sb, batch_conditional n m k l A C G Hm xh0 S0 ys = Some (xb, Sb) /\
                meq n 1 xb xk /\ meq n n Sb Sk.
Proof.
  intros Hne HL. pose proof HL as HL2. rewrite last_kalman_path in HL2 by assumption.
  destruct (kalman_defined_batch_defined ys _ HL2) as [[xb Sb] EB].
  exists xb, Sb. split; [exact EB|].
  eapply kalman_equals_batch; eassumption.
Qed.
End BatchDefined2.

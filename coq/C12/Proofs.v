(* C12 lemmas *)
From Coq Require Import ZArith QArith List Bool Lia Lqa Setoid Morphisms.
From QE Require Import Base.Num Base.LinAlg Base.Gauss C12.Model.
Import ListNotations.
Local Open Scope nat_scope.

Lemma moment_seq_length {T} `{Num T} n m k l (A C G : list (list T)) Ho t mu Sx :
  length (moment_seq n m k l A C G Ho t mu Sx) = t.
Proof. revert mu Sx. induction t; intros; simpl; [reflexivity|]. now rewrite IHt. Qed.

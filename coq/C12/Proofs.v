(* C12 lemmas, part 1: inverses, symmetry, positive semidefiniteness, Kalman measurement/time update *)
From Coq Require Import ZArith QArith List Bool Lia Lqa Setoid Morphisms.
From QE Require Import Base.Num Base.LinAlg Base.Gauss C12.Model.
Import ListNotations.
Local Open Scope nat_scope.
Local Open Scope Q_scope.

Lemma inv_checked_spec k (F Fi : Qmat) : inv_checked k F = Some Fi ->
  meq k k (mmul k k k F Fi) (mid k) /\ meq k k (mmul k k k Fi F) (mid k).
Proof.
  unfold inv_checked. destruct (solve_checked k k F (mid k)) as [X|] eqn:E; [|discriminate].
  destruct (mall2 k k neqb (mmul k k k X F) (mid k)) eqn:E2; [|discriminate].
  intros E3. injection E3 as <-. split.
  - now apply solve_checked_correct.
  - now apply mall2_meq.
Qed.

Section Joseph.
Variables (n k : nat) (Sg G R M : Qmat).
Let F := kal_F n k G R Sg.
Let X := msub n n (mid n) (mmul n k n M G).
Hypothesis HMF : meq n k (mmul n k k M F) (kal_E n k G Sg).

Lemma joseph_alg :
  meq n n (msub n n Sg (mmul n k n M (mmul k n n G Sg)))
          (madd n n (mmul n n n (mmul n n n X Sg) (mtr n n X))
                    (mmul n k n (mmul n k k M R) (mtr n k M))).
Proof.
  assert (Hkey : meq n n
            (madd n n (mmul n k n M (mmul k n n G (mmul n n n Sg (mmul n k n (mtr k n G) (mtr n k M)))))
                      (mmul n k n M (mmul k k n R (mtr n k M))))
            (mmul n n n Sg (mmul n k n (mtr k n G) (mtr n k M)))).
  { rewrite <- (mmul_assoc n n k n Sg (mtr k n G) (mtr n k M)) at 2.
    fold (kal_E n k G Sg). rewrite <- HMF. unfold F, kal_F.
    rewrite mmul_madd_distr_l. rewrite mmul_madd_distr_r.
    rewrite !mmul_assoc. reflexivity. }
  subst X.
  rewrite mtr_msub, mtr_mid, mtr_mmul.
  rewrite mmul_msub_distr_r, mmul_id_l.
  rewrite mmul_msub_distr_l, mmul_id_r.
  rewrite mmul_msub_distr_r.
  rewrite !mmul_assoc.
  intros i j Hi Hj. specialize (Hkey i j Hi Hj).
  rewrite get_madd in Hkey by assumption.
  mat_entries. lra.
Qed.
End Joseph.
(* ---------------- symmetry *)
#[global] Instance msym_proper n : Proper (meq n n ==> iff) (msym n).
Proof. intros A B E. unfold msym. now rewrite E. Qed.

Lemma msym_sandwich n p (X S : Qmat) : msym p S ->
  msym n (mmul n p n (mmul n p p X S) (mtr n p X)).
Proof.
  unfold msym. intros HS.
  rewrite mtr_mmul, mtr_mtr, mtr_mmul, HS. now rewrite mmul_assoc.
Qed.

Lemma msym_madd n A B : msym n A -> msym n B -> msym n (madd n n A B).
Proof. unfold msym. intros HA HB. now rewrite mtr_madd, HA, HB. Qed.

Lemma msym_outer r c (M : Qmat) : msym r (outer r c M).
Proof. unfold msym, outer. rewrite mtr_mmul, mtr_mtr. reflexivity. Qed.

(* ---------------- positive semidefiniteness: x' S x >= 0 for every n x 1 matrix x *)
Definition xSx (n : nat) (S x : Qmat) : Q := get (mmul 1 n 1 (mtr n 1 x) (mmul n n 1 S x)) 0 0.
Definition mpsd (n : nat) (S : Qmat) : Prop := forall x : Qmat, 0 <= xSx n S x.

Lemma xSx_proper n S S' x : meq n n S S' -> xSx n S x == xSx n S' x.
Proof. intros E. unfold xSx. assert (Hm : meq 1 1 (mmul 1 n 1 (mtr n 1 x) (mmul n n 1 S x)) (mmul 1 n 1 (mtr n 1 x) (mmul n n 1 S' x))) by now rewrite E. apply Hm; lia. Qed.

#[global] Instance mpsd_proper n : Proper (meq n n ==> iff) (mpsd n).
Proof.
  intros A B E. unfold mpsd. split; intros HH x.
  - rewrite <- (xSx_proper n A B x E). apply HH.
  - rewrite (xSx_proper n A B x E). apply HH.
Qed.

Lemma xSx_sandwich n p (X S x : Qmat) :
  xSx n (mmul n p n (mmul n p p X S) (mtr n p X)) x == xSx p S (mmul p n 1 (mtr n p X) x).
Proof.
  unfold xSx.
  assert (Hm : meq 1 1
    (mmul 1 n 1 (mtr n 1 x) (mmul n n 1 (mmul n p n (mmul n p p X S) (mtr n p X)) x))
    (mmul 1 p 1 (mtr p 1 (mmul p n 1 (mtr n p X) x)) (mmul p p 1 S (mmul p n 1 (mtr n p X) x)))).
  { rewrite mtr_mmul, mtr_mtr. rewrite !mmul_assoc. reflexivity. }
  apply Hm; lia.
Qed.

Lemma mpsd_sandwich n p (X S : Qmat) : mpsd p S -> mpsd n (mmul n p n (mmul n p p X S) (mtr n p X)).
Proof. intros HS x. rewrite xSx_sandwich. apply HS. Qed.

Lemma xSx_madd n A B x : xSx n (madd n n A B) x == xSx n A x + xSx n B x.
Proof.
  unfold xSx.
  assert (Hm : meq 1 1 (mmul 1 n 1 (mtr n 1 x) (mmul n n 1 (madd n n A B) x))
     (madd 1 1 (mmul 1 n 1 (mtr n 1 x) (mmul n n 1 A x)) (mmul 1 n 1 (mtr n 1 x) (mmul n n 1 B x)))).
  { rewrite mmul_madd_distr_r, mmul_madd_distr_l. reflexivity. }
  rewrite (Hm 0%nat 0%nat) by lia. rewrite get_madd by lia. reflexivity.
Qed.

Lemma mpsd_madd n A B : mpsd n A -> mpsd n B -> mpsd n (madd n n A B).
Proof. intros HA HB x. rewrite xSx_madd. specialize (HA x). specialize (HB x). lra. Qed.

Lemma mpsd_mid n : mpsd n (mid n).
Proof.
  intros x. unfold xSx.
  assert (Hm : meq 1 1 (mmul 1 n 1 (mtr n 1 x) (mmul n n 1 (mid n) x)) (mmul 1 n 1 (mtr n 1 x) x))
    by now rewrite mmul_id_l.
  rewrite (Hm 0%nat 0%nat) by lia. rewrite get_mmul by lia.
  apply sumQ_nonneg. intros l Hl. rewrite get_mtr by lia.
  assert (0 <= get x l 0 * get x l 0) by nra. assumption.
Qed.

Lemma mpsd_outer r c (M : Qmat) : mpsd r (outer r c M).
Proof.
  unfold outer.
  assert (E : meq r r (mmul r c r M (mtr r c M)) (mmul r c r (mmul r c c M (mid c)) (mtr r c M)))
    by now rewrite mmul_id_r.
  rewrite E. apply mpsd_sandwich. apply mpsd_mid.
Qed.

Lemma mpsd_mzero n : mpsd n (mzero n n).
Proof.
  intros x. unfold xSx.
  assert (Hm : meq 1 1 (mmul 1 n 1 (mtr n 1 x) (mmul n n 1 (mzero n n) x)) (mzero 1 1))
    by now rewrite mmul_mzero_l, mmul_mzero_r.
  rewrite (Hm 0%nat 0%nat) by lia. rewrite get_mzero by lia. apply Qle_refl.
Qed.

(* ---------------- inverses *)
Definition is_inv (k : nat) (F Fi : Qmat) : Prop :=
  meq k k (mmul k k k F Fi) (mid k) /\ meq k k (mmul k k k Fi F) (mid k).

Lemma inv_unique k (F1 F2 Fi1 Fi2 : Qmat) :
  meq k k F1 F2 -> is_inv k F1 Fi1 -> is_inv k F2 Fi2 -> meq k k Fi1 Fi2.
Proof.
  intros E [_ H1] [H2 _].
  rewrite <- (mmul_id_r k k Fi1). rewrite <- H2. rewrite <- mmul_assoc.
  rewrite <- E. rewrite H1. now rewrite mmul_id_l.
Qed.

(* ---------------- Kalman: measurement update in Joseph form *)
Definition joseph_form (n k : nat) (G R Sg M : Qmat) : Qmat :=
  let X := msub n n (mid n) (mmul n k n M G) in
  madd n n (mmul n n n (mmul n n n X Sg) (mtr n n X)) (mmul n k n (mmul n k k M R) (mtr n k M)).

Lemma ptf_with_joseph n k (G R Fi xhat Sg y : Qmat) :
  is_inv k (kal_F n k G R Sg) Fi ->
  meq n n (snd (ptf_with n k G Fi (xhat, Sg) y)) (joseph_form n k G R Sg (kal_M n k G Sg Fi)).
Proof.
  intros [_ HL]. simpl. unfold joseph_form. apply joseph_alg.
  unfold kal_M. rewrite mmul_assoc, HL. now rewrite mmul_id_r.
Qed.

Lemma prior_to_filtered_inv n k l (G Hm : Qmat) st y st' :
  prior_to_filtered n k l G Hm st y = Some st' ->
  exists Fi, is_inv k (kal_F n k G (outer k l Hm) (snd st)) Fi /\ st' = ptf_with n k G Fi st y.
Proof.
  unfold prior_to_filtered.
  destruct (inv_checked k (kal_F n k G (outer k l Hm) (snd st))) as [Fi|] eqn:E; [|discriminate].
  intros E2. injection E2 as <-. exists Fi. split; [|reflexivity]. now apply inv_checked_spec.
Qed.

Theorem kalman_joseph n k l (G Hm xhat Sg y x' S' : Qmat) :
  prior_to_filtered n k l G Hm (xhat, Sg) y = Some (x', S') ->
  exists Fi, is_inv k (kal_F n k G (outer k l Hm) Sg) Fi /\
    let M := kal_M n k G Sg Fi in
    x' = madd n 1 xhat (mmul n k 1 M (msub k 1 y (mmul k n 1 G xhat))) /\
    meq n n S' (joseph_form n k G (outer k l Hm) Sg M).
Proof.
  intros E. apply prior_to_filtered_inv in E. destruct E as [Fi [HI E]].
  exists Fi. split; [exact HI|]. simpl in HI.
  pose proof (ptf_with_joseph n k G (outer k l Hm) Fi xhat Sg y HI) as HJ.
  rewrite <- E in HJ. simpl in HJ. simpl in E. injection E as -> _. split; [reflexivity|exact HJ].
Qed.

Lemma joseph_form_sym n k (G R Sg M : Qmat) : msym n Sg -> msym k R -> msym n (joseph_form n k G R Sg M).
Proof. intros. unfold joseph_form. apply msym_madd; now apply msym_sandwich. Qed.

Lemma joseph_form_psd n k (G R Sg M : Qmat) : mpsd n Sg -> mpsd k R -> mpsd n (joseph_form n k G R Sg M).
Proof. intros. unfold joseph_form. apply mpsd_madd; now apply mpsd_sandwich. Qed.

Theorem prior_to_filtered_sym_psd n k l (G Hm : Qmat) st y st' :
  prior_to_filtered n k l G Hm st y = Some st' ->
  msym n (snd st) /\ mpsd n (snd st) -> msym n (snd st') /\ mpsd n (snd st').
Proof.
  destruct st as [xhat Sg], st' as [x' S']. intros E [HS HP]. simpl in *.
  apply kalman_joseph in E. destruct E as [Fi [_ [_ HJ]]].
  split; rewrite HJ.
  - apply joseph_form_sym; [assumption|apply msym_outer].
  - apply joseph_form_psd; [assumption|apply mpsd_outer].
Qed.

Lemma forecast_cov n m (A C xhat Sg : Qmat) :
  meq n n (snd (filtered_to_forecast n m A C (xhat, Sg)))
          (madd n n (mmul n n n (mmul n n n A Sg) (mtr n n A)) (outer n m C)).
Proof. simpl. now rewrite mmul_assoc. Qed.

Theorem filtered_to_forecast_sym_psd n m (A C : Qmat) st :
  msym n (snd st) /\ mpsd n (snd st) ->
  msym n (snd (filtered_to_forecast n m A C st)) /\ mpsd n (snd (filtered_to_forecast n m A C st)).
Proof.
  destruct st as [xhat Sg]. intros [HS HP]. simpl in HS, HP.
  split; rewrite forecast_cov.
  - apply msym_madd; [now apply msym_sandwich|apply msym_outer].
  - apply mpsd_madd; [now apply mpsd_sandwich|apply mpsd_outer].
Qed.

Theorem update_sym_psd n m k l (A C G Hm : Qmat) st y st' :
  update n m k l A C G Hm st y = Some st' ->
  msym n (snd st) /\ mpsd n (snd st) -> msym n (snd st') /\ mpsd n (snd st').
Proof.
  unfold update. destruct (prior_to_filtered n k l G Hm st y) as [sf|] eqn:E; [|discriminate].
  intros E2 HH. injection E2 as <-. apply filtered_to_forecast_sym_psd.
  eapply prior_to_filtered_sym_psd; eassumption.
Qed.

(* every state along a record *)
Theorem kalman_path_sym_psd n m k l (A C G Hm : Qmat) ys : forall st,
  msym n (snd st) /\ mpsd n (snd st) ->
  forall st', In (Some st') (kalman_path n m k l A C G Hm st ys) -> msym n (snd st') /\ mpsd n (snd st').
Proof.
  induction ys as [|y r IH]; intros st HH st' Hin; simpl in Hin; [contradiction|].
  destruct (update n m k l A C G Hm st y) as [s1|] eqn:E.
  - assert (H1 : msym n (snd s1) /\ mpsd n (snd s1)) by (eapply update_sym_psd; eassumption).
    destruct Hin as [Hin|Hin].
    + injection Hin as <-. exact H1.
    + eapply IH; eassumption.
  - destruct Hin as [Hin|[]]. discriminate.
Qed.

(* every state along any sequence of prior_to_filtered / filtered_to_forecast / update *)
Theorem kalman_ops_sym_psd n m k l (A C G Hm : Qmat) ops : forall st,
  msym n (snd st) /\ mpsd n (snd st) ->
  forall st', In (Some st') (kalman_ops n m k l A C G Hm st ops) -> msym n (snd st') /\ mpsd n (snd st').
Proof.
  induction ops as [|o r IH]; intros st HH st' Hin; simpl in Hin; [contradiction|].
  destruct (kalman_op n m k l A C G Hm st o) as [s1|] eqn:E.
  - assert (H1 : msym n (snd s1) /\ mpsd n (snd s1)).
    { destruct o; simpl in E.
      + eapply prior_to_filtered_sym_psd; eassumption.
      + injection E as <-. now apply filtered_to_forecast_sym_psd.
      + eapply update_sym_psd; eassumption. }
    destruct Hin as [Hin|Hin].
    + injection Hin as <-. exact H1.
    + eapply IH; eassumption.
  - destruct Hin as [Hin|[]]. discriminate.
Qed.

(* ---------------- stationary values *)
Theorem kalman_stationary_fixed_point n m k l (A C G Hm Sinf Fi Kinf xhat y : Qmat) st' :
  is_inv k (kal_F n k G (outer k l Hm) Sinf) Fi ->
  meq n n Sinf (dual_riccati_rhs n k A G (outer n m C) Fi Sinf) ->
  stationary_K n k l A G Hm Sinf = Some Kinf ->
  update n m k l A C G Hm (xhat, Sinf) y = Some st' ->
  meq n n (snd st') Sinf /\
  meq n k Kinf (mmul n n k A (kal_M n k G Sinf Fi)) /\
  meq n 1 (fst st') (madd n 1 (mmul n n 1 A xhat) (mmul n k 1 Kinf (msub k 1 y (mmul k n 1 G xhat)))).
Proof.
  intros HI HR HK HU.
  (* the gain *)
  assert (EK : meq n k Kinf (mmul n n k A (kal_M n k G Sinf Fi))).
  { unfold stationary_K in HK.
    destruct (inv_checked k _) as [t2|] eqn:E2 in HK; [|discriminate].
    injection HK as <-. apply inv_checked_spec in E2. fold (is_inv k (madd k k (mmul k n k G (mmul n n k Sinf (mtr k n G))) (outer k l Hm)) t2) in E2.
    assert (Et : meq k k t2 Fi).
    { eapply inv_unique; [|exact E2|exact HI]. unfold kal_F. now rewrite mmul_assoc. }
    rewrite Et. unfold kal_M, kal_E. now rewrite !mmul_assoc. }
  (* the update *)
  unfold update in HU.
  destruct (prior_to_filtered n k l G Hm (xhat, Sinf) y) as [sf|] eqn:E; [|discriminate].
  injection HU as <-. apply prior_to_filtered_inv in E. destruct E as [Fi' [HI' ->]].
  simpl in HI'.
  assert (EF : meq k k Fi' Fi) by (eapply inv_unique; [reflexivity|exact HI'|exact HI]).
  split; [|split; [exact EK|]].
  - transitivity (dual_riccati_rhs n k A G (outer n m C) Fi Sinf); [|symmetry; exact HR].
    simpl. unfold dual_riccati_rhs, kal_M.
    rewrite EF.
    rewrite mmul_msub_distr_r, mmul_msub_distr_l.
    rewrite !mmul_assoc. reflexivity.
  - simpl. rewrite EK. unfold kal_M. rewrite EF.
    rewrite mmul_madd_distr_l. rewrite !mmul_assoc. reflexivity.
Qed.

(* C12 lemmas, part 5: stationary_distributions (at most one constant state) returns a fixed point *)
From Coq Require Import ZArith QArith List Bool Lia Lqa Setoid Morphisms Permutation.
From QE Require Import Base.Num Base.LinAlg Base.Gauss C12.Model C12.Proofs C12.Proofs2 C12.Proofs3 C12.Proofs4.
Import ListNotations.
Local Open Scope nat_scope.
Local Open Scope Q_scope.

(* ---------------- sums along a permutation *)
Fixpoint lsum (l : list Q) : Q := match l with [] => 0 | x :: r => x + lsum r end.

Lemma lsum_app a b : lsum (a ++ b) == lsum a + lsum b.
Proof. induction a; simpl; [ring|]. rewrite IHa. ring. Qed.

Lemma lsum_perm l l' : Permutation l l' -> lsum l == lsum l'.
Proof.
  induction 1; simpl.
  - reflexivity.
  - now rewrite IHPermutation.
  - ring.
  - now rewrite IHPermutation1.
Qed.

Lemma sumQ_lsum n f : sumQ n f == lsum (map f (seq 0 n)).
Proof.
  induction n; [reflexivity|].
  rewrite seq_S, map_app, lsum_app. simpl. rewrite IHn. ring.
Qed.

Lemma map_nth_seq {B} (l : list B) d : map (fun i => nth i l d) (seq 0 (length l)) = l.
Proof.
  induction l using rev_ind; [reflexivity|].
  rewrite app_length. simpl length. rewrite Nat.add_1_r, seq_S, map_app. simpl.
  rewrite app_nth2, Nat.sub_diag by lia. simpl. f_equal.
  rewrite <- IHl at 2. apply map_ext_in. intros a Ha. apply in_seq in Ha. now rewrite app_nth1 by lia.
Qed.

Lemma sumQ_reindex n sidx (f : nat -> Q) : Permutation sidx (seq 0 n) ->
  sumQ n (fun r => f (nth r sidx 0%nat)) == sumQ n f.
Proof.
  intros HP. assert (HL : length sidx = n) by (rewrite (Permutation_length HP); apply seq_length).
  rewrite !sumQ_lsum.
  rewrite <- (map_map (fun r => nth r sidx 0%nat) f).
  rewrite <- HL at 1. rewrite map_nth_seq.
  apply lsum_perm. now apply Permutation_map.
Qed.

Lemma sumQ_remove n i f : (i < n)%nat ->
  sumQ n f == f i + sumQ n (fun l => if Nat.eqb l i then 0 else f l).
Proof.
  induction n; intros Hi; [lia|]. simpl.
  destruct (Nat.eqb n i) eqn:E.
  - apply Nat.eqb_eq in E. subst i.
    rewrite (sumQ_ext n (fun l => if Nat.eqb l n then 0 else f l) f).
    + ring.
    + intros l Hl. replace (Nat.eqb l n) with false by (symmetry; apply Nat.eqb_neq; lia). reflexivity.
  - apply Nat.eqb_neq in E. rewrite IHn by lia. ring.
Qed.

Lemma sumQ_nonneg_zero n f : (forall l, (l < n)%nat -> 0 <= f l) -> sumQ n f == 0 ->
  forall l, (l < n)%nat -> f l == 0.
Proof.
  induction n; intros Hf Hs l Hl; [lia|]. simpl in Hs.
  assert (H1 : 0 <= sumQ n f) by (apply sumQ_nonneg; intros; apply Hf; lia).
  assert (H2 : 0 <= f n) by (apply Hf; lia).
  destruct (Nat.eq_dec l n) as [->|Hne].
  - lra.
  - apply IHn; [intros; apply Hf; lia|lra|lia].
Qed.

(* ---------------- __partition *)
Section Partition.
Variables (n m : nat) (A C : Qmat).

Lemma is_const_spec idx : (idx < n)%nat -> is_const n m A C idx = true ->
  get A idx idx == 1 /\ (forall j, (j < m)%nat -> get C idx j == 0) /\
  (forall j, (j < n)%nat -> j <> idx -> get A idx j == 0).
Proof.
  intros Hidx H. unfold is_const in H. apply andb_prop in H. destruct H as [H H3].
  apply andb_prop in H. destruct H as [H1 H2].
  apply Qeq_bool_iff in H1. apply Qeq_bool_iff in H3. change (@none_ Q NumQ) with 1 in *.
  split; [exact H1|]. split.
  - intros j Hj. rewrite forallb_forall in H2. apply Qeq_bool_iff. apply (H2 j). apply in_seq. lia.
  - intros j Hj Hne. rewrite nsum_sumQ in H3.
    rewrite (sumQ_ext n _ (fun j => get A idx j * get A idx j)) in H3 by (intros; apply nmul_Q).
    rewrite (sumQ_remove n idx) in H3 by assumption. rewrite H1 in H3.
    assert (Hz : sumQ n (fun l => if Nat.eqb l idx then 0 else get A idx l * get A idx l) == 0) by lra.
    assert (Hnn : forall l, (l < n)%nat -> 0 <= (fun l => if Nat.eqb l idx then 0 else get A idx l * get A idx l) l).
    { intros l _. simpl. destruct (Nat.eqb l idx); [apply Qle_refl|].
      generalize (get A idx l). intros q. nra. }
    pose proof (sumQ_nonneg_zero n _ Hnn Hz j Hj) as Hj0.
    simpl in Hj0. replace (Nat.eqb j idx) with false in Hj0 by (symmetry; apply Nat.eqb_neq; lia).
    assert (Hsq : get A idx j * get A idx j == 0) by exact Hj0.
    apply Qmult_integral in Hsq. tauto.
Qed.

Lemma part_loop_spec idxs : forall acc nc nc' sidx,
  part_loop n m A C idxs acc nc = (nc', sidx) ->
  (nc <= length acc)%nat -> (forall r, (r < nc)%nat -> is_const n m A C (nth r acc 0%nat) = true) ->
  Permutation sidx (acc ++ idxs) /\ (nc' <= length sidx)%nat /\
  (forall r, (r < nc')%nat -> is_const n m A C (nth r sidx 0%nat) = true).
Proof.
  induction idxs as [|idx r IH]; intros acc nc nc' sidx E Hlen Hc; simpl in E.
  - injection E as <- <-. rewrite app_nil_r. repeat split; auto.
  - destruct (is_const n m A C idx) eqn:Ei.
    + apply IH in E.
      * destruct E as [HP HR]. split; [|exact HR].
        rewrite HP. simpl. apply Permutation_middle.
      * simpl. lia.
      * intros r0 Hr0. destruct r0; [exact Ei|]. simpl. apply Hc. lia.
    + apply IH in E.
      * destruct E as [HP HR]. split; [|exact HR].
        rewrite HP. rewrite <- app_assoc. reflexivity.
      * rewrite app_length. simpl. lia.
      * intros r0 Hr0. rewrite app_nth1 by lia. now apply Hc.
Qed.

Lemma partition_spec nc sidx : partition n m A C = (nc, sidx) ->
  Permutation sidx (seq 0 n) /\ (nc <= n)%nat /\
  (forall r, (r < nc)%nat -> is_const n m A C (nth r sidx 0%nat) = true).
Proof.
  unfold partition. intros E. apply part_loop_spec in E; [|simpl; lia|intros; lia].
  destruct E as [HP [HL HC]]. simpl in HP. split; [exact HP|]. split; [|exact HC].
  rewrite (Permutation_length HP), seq_length in HL. exact HL.
Qed.
End Partition.

(* ---------------- permutation matrices *)
Section PermMat.
Variables (n : nat) (sidx : list nat).
Hypothesis HP : Permutation sidx (seq 0 n).
Let sg (r : nat) : nat := nth r sidx 0%nat.
Let P : Qmat := perm_mat n sidx.

Lemma sidx_length : length sidx = n.
Proof. rewrite (Permutation_length HP). apply seq_length. Qed.

Lemma sg_lt r : (r < n)%nat -> (sg r < n)%nat.
Proof.
  intros Hr. assert (Hin : In (sg r) sidx) by (apply nth_In; rewrite sidx_length; lia).
  apply (Permutation_in _ HP) in Hin. apply in_seq in Hin. lia.
Qed.

Lemma sg_inj r c : (r < n)%nat -> (c < n)%nat -> sg r = sg c -> r = c.
Proof.
  intros Hr Hc E.
  assert (ND : NoDup sidx) by (apply (Permutation_NoDup (Permutation_sym HP)); apply seq_NoDup).
  apply (proj1 (NoDup_nth sidx 0%nat) ND); [rewrite sidx_length; assumption|rewrite sidx_length; assumption|exact E].
Qed.

Lemma sg_eqb r c : (r < n)%nat -> (c < n)%nat -> Nat.eqb (sg r) (sg c) = Nat.eqb r c.
Proof.
  intros Hr Hc. destruct (Nat.eqb r c) eqn:E.
  - apply Nat.eqb_eq in E. subst. apply Nat.eqb_refl.
  - apply Nat.eqb_neq. intros E2. apply Nat.eqb_neq in E. apply E. now apply sg_inj.
Qed.

Lemma get_P r c : (r < n)%nat -> (c < n)%nat -> get P r c == (if Nat.eqb (sg r) c then 1 else 0).
Proof. intros Hr Hc. unfold P, perm_mat. rewrite (get_mk n n _ r c Hr Hc). fold (sg r). destruct (Nat.eqb (sg r) c); reflexivity. Qed.

(* (P X)[r,j] = X[sg r, j] *)
Lemma get_P_mul p (X : Qmat) r j : (r < n)%nat -> (j < p)%nat ->
  get (mmul n n p P X) r j == get X (sg r) j.
Proof.
  intros Hr Hj. rewrite get_mmul by assumption.
  rewrite (sumQ_ext n _ (fun l => (if Nat.eqb (sg r) l then 1 else 0) * get X l j)).
  - apply (sumQ_delta_l n (sg r) (fun l => get X l j)). now apply sg_lt.
  - intros l Hl. now rewrite get_P.
Qed.

(* (X P')[i,c] = X[i, sg c] *)
Lemma get_mul_Pt p (X : Qmat) i c : (i < p)%nat -> (c < n)%nat ->
  get (mmul p n n X (mtr n n P)) i c == get X i (sg c).
Proof.
  intros Hi Hc. rewrite get_mmul by assumption.
  rewrite (sumQ_ext n _ (fun l => get X i l * (if Nat.eqb l (sg c) then 1 else 0))).
  - apply (sumQ_delta_r n (sg c) (fun l => get X i l)). now apply sg_lt.
  - intros l Hl. rewrite get_mtr, get_P by assumption. now rewrite Nat.eqb_sym.
Qed.

Lemma P_Pt : meq n n (mmul n n n P (mtr n n P)) (mid n).
Proof.
  intros r c Hr Hc. rewrite get_mul_Pt by assumption.
  rewrite get_P by (try assumption; now apply sg_lt). rewrite get_mid by assumption.
  now rewrite sg_eqb.
Qed.

Lemma Pt_P : meq n n (mmul n n n (mtr n n P) P) (mid n).
Proof.
  intros i j Hi Hj. rewrite get_mmul, get_mid by assumption.
  set (f := fun l : nat => (if Nat.eqb l i then 1 else 0) * (if Nat.eqb l j then 1 else 0)).
  transitivity (sumQ n (fun r => f (nth r sidx 0%nat))).
  { apply sumQ_ext. intros r Hr. rewrite get_mtr, !get_P by assumption. reflexivity. }
  rewrite (sumQ_reindex n sidx f HP). unfold f.
  rewrite (sumQ_ext n _ (fun l => (if Nat.eqb i l then 1 else 0) * (if Nat.eqb l j then 1 else 0)))
    by (intros; now rewrite (Nat.eqb_sym l i)).
  rewrite (sumQ_delta_l n i (fun l => if Nat.eqb l j then 1 else 0)) by assumption. reflexivity.
Qed.
End PermMat.

(* ---------------- back from the sorted coordinates *)
Section Unsort.
Variables (n m : nat) (A C P : Qmat).
Let Pt := mtr n n P.
Hypothesis HPtP : meq n n (mmul n n n Pt P) (mid n).
Let sA := mmul n n n (mmul n n n P A) Pt.
Let sC := mmul n n m P C.

Lemma Pt_P_cancel p (X : Qmat) : meq n p (mmul n n p Pt (mmul n n p P X)) X.
Proof. rewrite <- mmul_assoc, HPtP. apply mmul_id_l. Qed.

Lemma unsort_mean (v : Qmat) :
  meq n 1 (mmul n n 1 sA v) v -> meq n 1 (mmul n n 1 A (mmul n n 1 Pt v)) (mmul n n 1 Pt v).
Proof.
  intros Hfix.
  transitivity (mmul n n 1 Pt (mmul n n 1 sA v)); [|now rewrite Hfix].
  unfold sA. rewrite !mmul_assoc. now rewrite Pt_P_cancel.
Qed.

Lemma unsort_cov (Sg : Qmat) :
  meq n n Sg (madd n n (mmul n n n (mmul n n n sA Sg) (mtr n n sA)) (outer n m sC)) ->
  meq n n (mmul n n n (mmul n n n Pt Sg) P)
          (madd n n (mmul n n n (mmul n n n A (mmul n n n (mmul n n n Pt Sg) P)) (mtr n n A)) (outer n m C)).
Proof.
  intros Hfix.
  transitivity (mmul n n n (mmul n n n Pt (madd n n (mmul n n n (mmul n n n sA Sg) (mtr n n sA)) (outer n m sC))) P);
    [now rewrite <- Hfix|].
  unfold outer, sA, sC.
  rewrite !mtr_mmul. fold Pt. unfold Pt at 3 5. rewrite !mtr_mtr. fold Pt.
  rewrite mmul_madd_distr_l, mmul_madd_distr_r.
  rewrite !mmul_assoc. rewrite !Pt_P_cancel. rewrite HPtP, !mmul_id_r. reflexivity.
Qed.
End Unsort.

Lemma sumQ_head n f : (0 < n)%nat -> sumQ n f == f 0%nat + sumQ (n - 1) (fun j => f (S j)).
Proof.
  intros Hn. replace n with (1 + (n - 1))%nat at 1 by lia.
  rewrite sumQ_split. simpl. ring.
Qed.

Lemma mblock_full r c (X : Qmat) : meq r c (mblock 0 0 r c X) X.
Proof. intros i j Hi Hj. now rewrite get_mblock. Qed.

(* ---------------- the theorem *)
Section Stationary.
Variables (n m k l : nat) (A C G : Qmat) (Ho : option Qmat) (mu0 : Qmat).

Theorem lss_stationary_fixed_point mu_x mu_y Sx Sy Syx :
  stationary_distributions n m k l A C G Ho mu0 = StatOk mu_x mu_y Sx Sy Syx ->
  (forall sidx, partition n m A C = (1%nat, sidx) -> get mu0 (nth 0 sidx 0%nat) 0 == 1) ->
  meq n 1 (mmul n n 1 A mu_x) mu_x /\
  meq n n Sx (madd n n (mmul n n n (mmul n n n A Sx) (mtr n n A)) (outer n m C)) /\
  mu_y = mmul k n 1 G mu_x /\ Sy = obs_cov n k l G Ho Sx /\ Syx = mmul k n n G Sx.
Proof.
  unfold stationary_distributions.
  destruct (partition n m A C) as [nc sidx] eqn:EP.
  destruct (partition_spec n m A C nc sidx EP) as [HP [Hnc Hconst]].
  set (P := perm_mat n sidx). set (Pt := mtr n n P).
  set (sA := mmul n n n (mmul n n n P A) Pt). set (sC := mmul n n m P C).
  set (d := (n - nc)%nat).
  set (A22 := mblock nc nc d d sA). set (CC2 := outer d m (mblock nc 0 d m sC)).
  destruct (solve_checked d _ _ _) as [mu|] eqn:Emu; [|discriminate].
  destruct (Nat.ltb 1 nc) eqn:Enc; [discriminate|]. apply Nat.ltb_ge in Enc.
  destruct (lyap_kron d A22 CC2) as [Sg|] eqn:ELy; [|discriminate].
  intros E Hone. injection E as <- <- <- <- <-.
  split; [|split; [|repeat split]].
  1: apply (unsort_mean n A P (Pt_P n sidx HP)).
  2: apply (unsort_cov n m A C P (Pt_P n sidx HP)).
  all: fold Pt; fold sA; try fold sC.
  all: apply solve_checked_correct in Emu; apply lyap_kron_spec in ELy.
  all: assert (HsA : forall r c, (r < n)%nat -> (c < n)%nat -> get sA r c == get A (nth r sidx 0%nat) (nth c sidx 0%nat))
         by (intros r c Hr Hc; unfold sA, Pt, P; rewrite (get_mul_Pt n sidx HP) by assumption;
             now rewrite (get_P_mul n sidx HP) by (try assumption; now apply (sg_lt n sidx HP))).
  all: assert (HsC : forall r j, (r < n)%nat -> (j < m)%nat -> get sC r j == get C (nth r sidx 0%nat) j)
         by (intros r j Hr Hj; unfold sC, P; now rewrite (get_P_mul n sidx HP) by assumption).
  all: destruct nc as [|[|nc2]]; [| |lia].
  - (* mean, no constant state *)
    unfold d in *. rewrite Nat.sub_0_r in *.
    intros i j Hi Hj. assert (j = 0%nat) by lia. subst j.
    specialize (Emu i 0%nat Hi ltac:(simpl; lia)). simpl in Emu.
    rewrite get_mmul in Emu by (simpl; lia). rewrite get_mzero in Emu by lia.
    rewrite get_mmul by lia. rewrite get_mk by lia. simpl. rewrite Nat.sub_0_r.
    rewrite (sumQ_ext n _ (fun a => get sA i a * get mu a 0)).
    2:{ intros a Ha. rewrite get_mk by lia. simpl. now rewrite Nat.sub_0_r. }
    rewrite (sumQ_ext n _ (fun a => (if Nat.eqb i a then 1 else 0) * get mu a 0 - get sA i a * get mu a 0)) in Emu.
    2:{ intros a Ha. rewrite get_msub, get_mid by lia. unfold A22. rewrite get_mblock by lia. simpl. ring. }
    rewrite sumQ_sub in Emu. rewrite (sumQ_delta_l n i (fun a => get mu a 0)) in Emu by assumption. lra.
  - (* mean, one constant state *)
    unfold d in *. assert (Hn : (0 < n)%nat) by lia.
    pose proof (sg_lt n sidx HP 0%nat Hn) as Hc. set (c := nth 0 sidx 0%nat) in *.
    destruct (is_const_spec n m A C c Hc (Hconst 0%nat ltac:(lia))) as [HA1 [HC0 HA0]].
    specialize (Hone sidx eq_refl). fold c in Hone.
    simpl in Emu.
    assert (Hms0 : get (mk n 1 (fun i _ : nat => if Nat.ltb i 1 then get mu0 (nth i sidx 0%nat) 0 else get mu (i - 1) 0)) 0 0 == 1).
    { rewrite get_mk by lia. simpl. exact Hone. }
    assert (HmsS : forall a, (a < n - 1)%nat ->
       get (mk n 1 (fun i _ : nat => if Nat.ltb i 1 then get mu0 (nth i sidx 0%nat) 0 else get mu (i - 1) 0)) (S a) 0 = get mu a 0).
    { intros a Ha. rewrite get_mk by lia. simpl. now rewrite Nat.sub_0_r. }
    intros i j Hi Hj. assert (j = 0%nat) by lia. subst j.
    rewrite get_mmul by lia. rewrite (sumQ_head n) by assumption. rewrite Hms0.
    rewrite (sumQ_ext (n - 1) _ (fun a => get sA i (S a) * get mu a 0)) by (intros a Ha; now rewrite HmsS).
    destruct i as [|i'].
    + rewrite Hms0. rewrite HsA by lia. fold c. rewrite HA1.
      rewrite (sumQ_ext (n - 1) _ (fun _ => 0)); [rewrite sumQ_zero; ring|].
      intros a Ha. rewrite HsA by lia. fold c. rewrite HA0; [ring|apply (sg_lt n sidx HP); lia|].
      intros E. apply (sg_inj n sidx HP) in E; lia.
    + rewrite HmsS by lia.
      specialize (Emu i' 0%nat ltac:(lia) ltac:(lia)).
      rewrite get_mmul in Emu by lia. rewrite get_mblock in Emu by lia. simpl in Emu.
      rewrite (sumQ_ext (n - 1) _ (fun a => (if Nat.eqb i' a then 1 else 0) * get mu a 0 - get sA (S i') (S a) * get mu a 0)) in Emu.
      2:{ intros a Ha. rewrite get_msub, get_mid by lia. unfold A22. rewrite get_mblock by lia. simpl. ring. }
      rewrite sumQ_sub in Emu. rewrite (sumQ_delta_l (n - 1) i' (fun a => get mu a 0)) in Emu by lia. lra.
  - (* covariance, no constant state *)
    assert (Hd : d = n) by (unfold d; lia). clearbody d. subst d.
    assert (E1 : meq n n (mk n n (fun i j : nat => if Nat.ltb i 0 || Nat.ltb j 0 then 0 else get Sg (i - 0) (j - 0))) Sg).
    { intros i j Hi Hj. rewrite get_mk by assumption. simpl. now rewrite !Nat.sub_0_r. }
    rewrite E1. rewrite ELy at 1. unfold A22, CC2, outer. now rewrite !mblock_full.
  - (* covariance, one constant state *)
    unfold d in *. assert (Hn : (0 < n)%nat) by lia.
    pose proof (sg_lt n sidx HP 0%nat Hn) as Hc. set (c := nth 0 sidx 0%nat) in *.
    destruct (is_const_spec n m A C c Hc (Hconst 0%nat ltac:(lia))) as [HA1 [HC0 HA0]].
    assert (sA0 : forall a, (a < n - 1)%nat -> get sA 0 (S a) == 0).
    { intros a Ha. rewrite HsA by lia. fold c. rewrite HA0; [reflexivity|apply (sg_lt n sidx HP); lia|].
      intros E. apply (sg_inj n sidx HP) in E; lia. }
    assert (sC0 : forall q, (q < m)%nat -> get sC 0 q == 0).
    { intros q Hq. rewrite HsC by lia. fold c. now apply HC0. }
    set (Ss := mk n n (fun i j : nat => if Nat.ltb i 1 || Nat.ltb j 1 then 0 else get Sg (i - 1) (j - 1))).
    assert (Ss0l : forall b, (b < n)%nat -> get Ss 0 b == 0) by (intros b Hb; unfold Ss; now rewrite get_mk by lia).
    assert (Ss0r : forall a, (a < n)%nat -> get Ss a 0 == 0).
    { intros a Ha. unfold Ss. rewrite get_mk by lia. simpl. now rewrite orb_true_r. }
    assert (SsS : forall a b, (a < n - 1)%nat -> (b < n - 1)%nat -> get Ss (S a) (S b) = get Sg a b).
    { intros a b Ha Hb. unfold Ss. rewrite get_mk by lia. simpl. now rewrite !Nat.sub_0_r. }
    (* W = sA Ss *)
    assert (W0 : forall i, (i < n)%nat -> get (mmul n n n sA Ss) i 0 == 0).
    { intros i Hi. rewrite get_mmul by lia. rewrite (sumQ_ext n _ (fun _ => 0)); [apply sumQ_zero|].
      intros a Ha. rewrite Ss0r by assumption. ring. }
    assert (WS : forall i b, (i < n)%nat -> (b < n - 1)%nat ->
               get (mmul n n n sA Ss) i (S b) == sumQ (n - 1) (fun a => get sA i (S a) * get Sg a b)).
    { intros i b Hi Hb. rewrite get_mmul by lia. rewrite (sumQ_head n) by assumption.
      rewrite Ss0l by lia. rewrite (sumQ_ext (n - 1) _ (fun a => get sA i (S a) * get Sg a b))
        by (intros a Ha; now rewrite SsS). ring. }
    intros i j Hi Hj. rewrite get_madd by assumption.
    rewrite get_mmul by assumption. rewrite (sumQ_head n) by assumption. rewrite W0 by assumption.
    rewrite (sumQ_ext (n - 1) _ (fun b => sumQ (n - 1) (fun a => get sA i (S a) * get Sg a b) * get sA j (S b))).
    2:{ intros b Hb. rewrite WS by assumption. rewrite get_mtr by lia. reflexivity. }
    unfold outer. rewrite get_mmul by assumption.
    rewrite (sumQ_ext m _ (fun q => get sC i q * get sC j q)) by (intros q Hq; now rewrite get_mtr by lia).
    destruct i as [|i'].
    + rewrite Ss0l by assumption.
      rewrite (sumQ_ext (n - 1) _ (fun _ => 0)).
      2:{ intros b Hb. rewrite (sumQ_ext (n - 1) _ (fun _ => 0)); [rewrite sumQ_zero; ring|].
          intros a Ha. rewrite sA0 by assumption. ring. }
      rewrite (sumQ_ext m _ (fun _ => 0)) by (intros q Hq; rewrite sC0 by assumption; ring).
      rewrite !sumQ_zero. ring.
    + destruct j as [|j'].
      * rewrite Ss0r by assumption.
        rewrite (sumQ_ext (n - 1) _ (fun _ => 0)) by (intros b Hb; rewrite sA0 by assumption; ring).
        rewrite (sumQ_ext m _ (fun _ => 0)) by (intros q Hq; rewrite sC0 by assumption; ring).
        rewrite !sumQ_zero. ring.
      * rewrite SsS by lia.
        rewrite (ELy i' j' ltac:(lia) ltac:(lia)). rewrite get_madd by lia.
        rewrite Qmult_0_l, Qplus_0_l.
        apply Qplus_comp.
        -- rewrite get_mmul by lia. apply sumQ_ext. intros b Hb.
           rewrite get_mmul by lia. rewrite get_mtr by lia. unfold A22. rewrite get_mblock by lia. simpl.
           apply Qmult_comp; [|reflexivity]. apply sumQ_ext. intros a Ha. rewrite get_mblock by lia. reflexivity.
        -- unfold CC2, outer. rewrite get_mmul by lia. apply sumQ_ext. intros q Hq.
           rewrite get_mtr by lia. rewrite !get_mblock by lia. reflexivity.
Qed.
End Stationary.

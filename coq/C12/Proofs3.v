(* C12 lemmas, part 3: one Kalman update is Gaussian conditioning on the joint law *)
From Coq Require Import ZArith QArith List Bool Lia Lqa Setoid Morphisms.
From QE Require Import Base.Num Base.LinAlg Base.Gauss C12.Model C12.Proofs.
Import ListNotations.
Local Open Scope nat_scope.
Local Open Scope Q_scope.

Lemma get_mhcat (n m1 m2 : nat) (A B : Qmat) i j : (i < n)%nat -> (j < m1 + m2)%nat ->
  get (mhcat n m1 m2 A B) i j = if Nat.ltb j m1 then get A i j else get B i (j - m1).
Proof. intros. unfold mhcat. now rewrite get_mk. Qed.

Lemma get_mblock (r0 c0 n m : nat) (A : Qmat) i j : (i < n)%nat -> (j < m)%nat ->
  get (mblock r0 c0 n m A) i j = get A (r0 + i) (c0 + j).
Proof. intros. unfold mblock. now rewrite get_mk. Qed.

(* the conditioning formula, with the inverse of Var(y) *)
Lemma gauss_condition_spec nx ny (mx my Sxx Sxy Syy yobs xb Sb Fi : Qmat) :
  gauss_condition nx ny mx my Sxx Sxy Syy yobs = Some (xb, Sb) ->
  is_inv ny Syy Fi ->
  meq nx 1 xb (madd nx 1 mx (mmul nx ny 1 Sxy (mmul ny ny 1 Fi (msub ny 1 yobs my)))) /\
  meq nx nx Sb (msub nx nx Sxx (mmul nx ny nx Sxy (mmul ny ny nx Fi (mtr nx ny Sxy)))).
Proof.
  unfold gauss_condition.
  destruct (solve_checked ny (nx + 1) Syy _) as [Z|] eqn:E; [|discriminate].
  intros E2 [_ HL]. injection E2 as <- <-.
  apply solve_checked_correct in E.
  assert (H1 : meq ny nx (mmul ny ny nx Syy (mblock 0 0 ny nx Z)) (mtr nx ny Sxy)).
  { intros i j Hi Hj. specialize (E i j Hi ltac:(lia)).
    rewrite get_mhcat in E by lia. replace (Nat.ltb j nx) with true in E by (symmetry; apply Nat.ltb_lt; lia).
    rewrite <- E. rewrite !get_mmul by lia. apply sumQ_ext. intros a Ha.
    rewrite get_mblock by lia. reflexivity. }
  assert (H2 : meq ny 1 (mmul ny ny 1 Syy (mblock 0 nx ny 1 Z)) (msub ny 1 yobs my)).
  { intros i j Hi Hj. assert (j = 0%nat) by lia. subst j. specialize (E i nx Hi ltac:(lia)).
    rewrite get_mhcat in E by lia. rewrite Nat.ltb_irrefl, Nat.sub_diag in E.
    rewrite <- E. rewrite !get_mmul by lia. apply sumQ_ext. intros a Ha.
    rewrite get_mblock by lia. now rewrite Nat.add_0_r. }
  split.
  - rewrite <- H2. rewrite <- (mmul_assoc ny ny ny 1 Fi Syy). rewrite HL. now rewrite mmul_id_l.
  - rewrite <- H1. rewrite <- (mmul_assoc ny ny ny nx Fi Syy). rewrite HL. now rewrite mmul_id_l.
Qed.

Lemma gauss_condition_congr nx ny (mx my Sxx Sxy Syy yobs xb Sb mx' my' Sxx' Sxy' Syy' yobs' Fi : Qmat) :
  gauss_condition nx ny mx my Sxx Sxy Syy yobs = Some (xb, Sb) ->
  meq nx 1 mx mx' -> meq ny 1 my my' -> meq nx nx Sxx Sxx' -> meq nx ny Sxy Sxy' -> meq ny ny Syy Syy' ->
  meq ny 1 yobs yobs' -> is_inv ny Syy' Fi ->
  meq nx 1 xb (madd nx 1 mx' (mmul nx ny 1 Sxy' (mmul ny ny 1 Fi (msub ny 1 yobs' my')))) /\
  meq nx nx Sb (msub nx nx Sxx' (mmul nx ny nx Sxy' (mmul ny ny nx Fi (mtr nx ny Sxy')))).
Proof.
  intros HG E1 E2 E3 E4 E5 E6 [HI1 HI2].
  apply (gauss_condition_spec nx ny mx my Sxx Sxy Syy yobs xb Sb Fi) in HG.
  - destruct HG as [Hx HS]. split.
    + rewrite Hx. now rewrite E1, E2, E4, E6.
    + rewrite HS. now rewrite E3, E4.
  - split; rewrite E5; assumption.
Qed.

Lemma joint_law_1 n m k l (A C G Hm xh0 S0 mx my Sxx Sxy Syy : Qmat) :
  joint_law n m k l A C G Hm xh0 S0 1 = (mx, my, Sxx, Sxy, Syy) ->
  meq n 1 mx (mmul n n 1 A xh0) /\
  meq k 1 my (mmul k n 1 G xh0) /\
  meq n n Sxx (madd n n (mmul n n n (mmul n n n A S0) (mtr n n A)) (outer n m C)) /\
  meq n k Sxy (mmul n n k A (kal_E n k G S0)) /\
  meq k k Syy (kal_F n k G (outer k l Hm) S0).
Proof.
  unfold joint_law. intros E. injection E as <- <- <- <- <-.
  cbn [nthm nth apows pvars map seq mpow].
  repeat split.
  - now rewrite mmul_id_r.
  - intros i j Hi Hj. rewrite get_mk by lia.
    rewrite !Nat.div_small, !Nat.mod_small by assumption. cbn [nth].
    assert (j = 0%nat) by lia. subst j.
    assert (E : meq k 1 (mmul k n 1 G (mmul n n 1 (mid n) xh0)) (mmul k n 1 G xh0)) by now rewrite mmul_id_l.
    now apply E.
  - intros i j Hi Hj. rewrite get_mk by lia.
    rewrite !Nat.div_small, !Nat.mod_small by assumption. cbn [nth cov_xx Nat.leb Nat.sub nthm].
    assert (E : meq n k (mmul n n k (mmul n n n (mmul n n n A (mid n)) S0) (mtr k n G)) (mmul n n k A (kal_E n k G S0))).
    { unfold kal_E. rewrite mmul_id_r. now rewrite mmul_assoc. }
    now apply E.
  - intros i j Hi Hj. rewrite get_mk by lia.
    rewrite !Nat.div_small, !Nat.mod_small by assumption. cbn [nth cov_xx Nat.leb Nat.sub nthm Nat.eqb].
    assert (E : meq k k (madd k k (mmul k n k (mmul k n n G (mmul n n n (mid n) S0)) (mtr k n G)) (outer k l Hm))
                        (kal_F n k G (outer k l Hm) S0)).
    { unfold kal_F. now rewrite mmul_id_l. }
    now apply E.
Qed.

Lemma stack_obs_1 k (y : Qmat) : meq k 1 (stack_obs k [y]) y.
Proof.
  intros i j Hi Hj. assert (j = 0%nat) by lia. subst j.
  unfold stack_obs. cbn [length]. rewrite get_mk by lia.
  rewrite Nat.div_small, Nat.mod_small by assumption. reflexivity.
Qed.

Theorem kalman_one_step_is_conditioning n m k l (A C G Hm xh0 S0 y xb Sb xk Sk : Qmat) :
  msym n S0 ->
  batch_conditional n m k l A C G Hm xh0 S0 [y] = Some (xb, Sb) ->
  update n m k l A C G Hm (xh0, S0) y = Some (xk, Sk) ->
  meq n 1 xb xk /\ meq n n Sb Sk.
Proof.
  intros Hsym HB HU. unfold msym in Hsym.
  unfold update in HU.
  destruct (prior_to_filtered n k l G Hm (xh0, S0) y) as [sf|] eqn:EP; [|discriminate].
  apply prior_to_filtered_inv in EP. destruct EP as [Fi [HI ->]]. simpl in HI.
  simpl in HU. injection HU as <- <-.
  unfold batch_conditional in HB. cbn [length] in HB.
  destruct (joint_law n m k l A C G Hm xh0 S0 1) as [[[[mx my] Sxx] Sxy] Syy] eqn:EJ.
  apply joint_law_1 in EJ. destruct EJ as [E1 [E2 [E3 [E4 E5]]]].
  rewrite Nat.mul_1_l in HB.
  eapply gauss_condition_congr in HB; [|exact E1|exact E2|exact E3|exact E4|exact E5|apply stack_obs_1|exact HI].
  destruct HB as [Hx HS].
  split.
  - rewrite Hx. unfold kal_M.
    rewrite mmul_madd_distr_l. rewrite !mmul_assoc. reflexivity.
  - rewrite HS. unfold kal_M.
    rewrite mtr_mmul. unfold kal_E at 2. rewrite mtr_mmul, mtr_mtr, Hsym.
    rewrite mmul_msub_distr_r, mmul_msub_distr_l.
    rewrite !mmul_assoc.
    intros a b Ha Hb. mat_entries. ring.
Qed.

(* C12: tie lemma between simulate_linear_model of quantecon/_lss.py as REGENERATED from /repo's current source
   (Gen/Kernels3.v) and the hand-written model C12/Model.v, for every Num instance:
     gen_simulate_linear_model A x0 v ts = (X, true)   where simulate_linear_model n A x0 v ts = Some X
   for A n x n, x0 of length n, v with n rows of at least ts-1 entries, ts >= 1 (the local array x = np.empty((n, ts))
   is completely overwritten). *)
From Coq Require Import ZArith List Bool Arith Lia.
From QE Require Import Base.Num Base.Pivot Gen.Kernels Gen.Kernels2 Gen.Kernels3 Base.GenLemmas
     Base.RowOps Base.LinAlg C12.Model.
Import ListNotations.

Section Tie.
Context {T : Type} {NT : Num T}.
Notation mat := (list (list T)).
Notation pget := Base.Pivot.get.

Section Sim.
Variables (n ts vc : nat) (A v : mat) (x0 : list T).
Hypothesis HA : rect n n A.
Hypothesis Hv : rect n vc v.
Hypothesis Hx0 : length x0 = n.
Hypothesis Hts : (1 <= ts)%nat.
Hypothesis Hvc : (ts - 1 <= vc)%nat.

(* one time step on row i: x[i,t+1] = v[i,t]; x[i,t+1] += A[i,j] * x[j,t]; colt j = x[j,t] *)
Definition Gs (t : nat) (colt : nat -> T) (i : nat) (row : list T) : list T :=
  upd_nth row (S t) (fold_left (fun acc j => nadd acc (nmul (pget A i j) (colt j))) (seq 0 n) (pget v i t)).

Lemma sim_loop2_tie t i : (i < n)%nat -> (S t < ts)%nat -> forall f j (x : mat) ok, rect n ts x -> (j + f <= n)%nat ->
  gen_simulate_linear_model_loop2 f (Z.of_nat j) x ok A (Z.of_nat t) (Z.of_nat i) =
    (upd_nth x i (upd_nth (nth i x []) (S t)
       (fold_left (fun acc j => nadd acc (nmul (pget A i j) (pget x j t))) (seq j f) (pget x i (S t)))), ok).
Proof.
  intros Hi Ht. induction f as [|f IH]; intros j x ok Hx Hj; cbn [gen_simulate_linear_model_loop2 seq fold_left].
  - unfold pget. rewrite (upd_nth_self nzero), upd_nth_same. reflexivity.
  - pose proof Hx as [Hl Hr]. destruct HA as [HAl HAr].
    replace (Z.of_nat t + 1)%Z with (Z.of_nat (S t)) by lia.
    rewrite !inb2_nat by (rewrite ?Hr, ?HAr; lia). rewrite !andb_true_r, set2_nat, !get2_nat.
    replace (Z.of_nat j + 1)%Z with (Z.of_nat (S j)) by lia.
    rewrite IH; [|apply rect_upd_row; [exact Hx|rewrite upd_nth_length; apply Hr; lia]|lia].
    rewrite nth_upd_nth_eq by lia. rewrite !upd_nth_twice. f_equal. f_equal. f_equal.
    assert (Hcell : pget (upd_nth x i (upd_nth (nth i x []) (S t) (nadd (pget x i (S t)) (nmul (pget A i j) (pget x j t))))) i (S t)
                    = nadd (pget x i (S t)) (nmul (pget A i j) (pget x j t))).
    { unfold pget at 1. rewrite nth_upd_nth_eq by lia. apply nth_upd_nth_eq. rewrite Hr; lia. }
    rewrite Hcell. apply fold_left_ext_in. intros acc j' _. f_equal. f_equal. unfold pget.
    destruct (Nat.eq_dec j' i) as [->|Hne]; [rewrite nth_upd_nth_eq by lia; apply nth_upd_nth_neq; lia|].
    rewrite nth_upd_nth_neq by exact Hne. reflexivity.
Qed.

Lemma sim_loop1_tie t colt : (S t < ts)%nat -> forall f i0 (x : mat) ok, rect n ts x -> (i0 + f <= n)%nat ->
  (forall j, pget x j t = colt j) ->
  gen_simulate_linear_model_loop1 f (Z.of_nat i0) x ok A v (Z.of_nat n) (Z.of_nat t) = (rows_upd 0 (Gs t colt) (seq i0 f) x, ok).
Proof.
  intros Ht. induction f as [|f IH]; intros i0 x ok Hx Hi Hcol; cbn [gen_simulate_linear_model_loop1 seq]; [reflexivity|].
  rewrite rows_upd_cons. cbn [Nat.add]. pose proof Hx as [Hl Hr]. destruct Hv as [Hvl Hvr].
  replace (Z.of_nat t + 1)%Z with (Z.of_nat (S t)) by lia.
  rewrite !inb2_nat by (rewrite ?Hr, ?Hvr; lia). rewrite !andb_true_r, set2_nat, get2_nat.
  replace (Z.to_nat (Z.of_nat n - 0)) with n by lia.
  set (x1 := upd_nth x i0 (upd_nth (nth i0 x []) (S t) (pget v i0 t))).
  assert (Hx1 : rect n ts x1) by (apply rect_upd_row; [exact Hx|rewrite upd_nth_length; apply Hr; lia]).
  pose proof (sim_loop2_tie t i0 ltac:(lia) Ht n 0 x1 ok Hx1 ltac:(lia)) as E2. change (Z.of_nat 0) with 0%Z in E2. rewrite E2. clear E2.
  assert (Hrow1 : nth i0 x1 [] = upd_nth (nth i0 x []) (S t) (pget v i0 t)) by (unfold x1; apply nth_upd_nth_eq; lia).
  assert (Hcell : pget x1 i0 (S t) = pget v i0 t) by (unfold pget at 1; rewrite Hrow1; apply nth_upd_nth_eq; rewrite Hr; lia).
  assert (Hcol1 : forall j, pget x1 j t = colt j).
  { intro j. rewrite <- Hcol. unfold pget, x1. destruct (Nat.eq_dec j i0) as [->|Hne];
      [rewrite nth_upd_nth_eq by lia; apply nth_upd_nth_neq; lia|rewrite nth_upd_nth_neq by exact Hne; reflexivity]. }
  rewrite Hrow1, Hcell, upd_nth_twice. unfold x1. rewrite upd_nth_twice.
  rewrite (fold_left_ext_in _ (fun acc j => nadd acc (nmul (pget A i0 j) (colt j)))) by (intros acc j _; rewrite Hcol1; reflexivity).
  fold (Gs t colt i0 (nth i0 x [])). replace (Z.of_nat i0 + 1)%Z with (Z.of_nat (S i0)) by lia.
  apply IH; [apply rect_upd_row; [exact Hx|unfold Gs; rewrite upd_nth_length; apply Hr; lia]|lia|].
  intro j. rewrite <- Hcol. unfold pget, Gs. destruct (Nat.eq_dec j i0) as [->|Hne];
    [rewrite nth_upd_nth_eq by lia; apply nth_upd_nth_neq; lia|rewrite nth_upd_nth_neq by exact Hne; reflexivity].
Qed.

(* the model's columns *)
Fixpoint colf (t : nat) : list T :=
  match t with O => vmk n (vget x0) | S t' => sim_step n A (colf t') (matcol n v t') end.
Lemma sim_cols_nth : forall len t0 x t, (t <= len)%nat ->
  nth t (sim_cols n A x (map (matcol n v) (seq t0 len))) [] =
    nat_rect (fun _ => nat -> list T -> list T) (fun _ x => x) (fun _ rec t0 x => rec (S t0) (sim_step n A x (matcol n v t0))) t t0 x.
Proof.
  induction len as [|len IH]; intros t0 x t Ht; cbn [seq map sim_cols].
  - destruct t; [reflexivity|lia].
  - destruct t as [|t]; [reflexivity|]. cbn [nth nat_rect]. apply IH. lia.
Qed.
Lemma colf_iter : forall t t0 x, 
  nat_rect (fun _ => nat -> list T -> list T) (fun _ x => x) (fun _ rec t0 x => rec (S t0) (sim_step n A x (matcol n v t0))) t t0 x =
  nat_rect (fun _ => list T) x (fun t' c => sim_step n A c (matcol n v (t0 + t'))) t.
Proof.
  induction t as [|t IH]; intros t0 x; cbn [nat_rect]; [reflexivity|]. rewrite IH. clear IH.
  revert x. induction t as [|t IHt]; intros x; cbn [nat_rect].
  - rewrite Nat.add_0_r. reflexivity.
  - rewrite <- IHt. f_equal. f_equal. lia.
Qed.
Lemma colf_eq t : colf t = nat_rect (fun _ => list T) (vmk n (vget x0)) (fun t' c => sim_step n A c (matcol n v (0 + t'))) t.
Proof. induction t as [|t IH]; cbn [colf nat_rect]; [reflexivity|]. rewrite IH. reflexivity. Qed.

Lemma cols_nth t : (t <= ts - 1)%nat ->
  nth t (sim_cols n A (vmk n (vget x0)) (map (matcol n v) (seq 0 (ts - 1)))) [] = colf t.
Proof. intro Ht. rewrite sim_cols_nth by exact Ht. rewrite colf_iter. symmetry. apply colf_eq. Qed.

Definition Inv (t : nat) (x : mat) : Prop :=
  rect n ts x /\ forall t' i, (t' <= t)%nat -> (i < n)%nat -> pget x i t' = vget (colf t') i.

Lemma sim_loop0_tie : forall f t (x : mat) ok, Inv t x -> (t + f = ts - 1)%nat ->
  exists x', gen_simulate_linear_model_loop0 f (Z.of_nat t) x ok A v (Z.of_nat n) = (x', ok) /\ Inv (ts - 1) x'.
Proof.
  induction f as [|f IH]; intros t x ok [Hx Hinv] Ht; cbn [gen_simulate_linear_model_loop0].
  - exists x. split; [reflexivity|]. replace (ts - 1)%nat with t by lia. split; assumption.
  - replace (Z.to_nat (Z.of_nat n - 0)) with n by lia.
    pose proof (sim_loop1_tie t (fun j => pget x j t) ltac:(lia) n 0 x ok Hx ltac:(lia) (fun j => eq_refl)) as E1.
    change (Z.of_nat 0) with 0%Z in E1. rewrite E1. clear E1.
    replace (Z.of_nat t + 1)%Z with (Z.of_nat (S t)) by lia.
    set (x1 := rows_upd 0 (Gs t (fun j => pget x j t)) (seq 0 n) x).
    assert (Hx1 : rect n ts x1).
    { apply rows_upd_rect; [|exact Hx]. intros i row Hrow. unfold Gs. rewrite upd_nth_length. exact Hrow. }
    apply IH; [|lia]. split; [exact Hx1|]. pose proof Hx as [Hl Hr].
    intros t' i Ht' Hi. unfold pget, x1. rewrite rows_upd_nth by lia.
    replace (Nat.leb (0 + 0) i && Nat.ltb i (0 + 0 + n)) with true
      by (symmetry; apply andb_true_intro; split; [apply Nat.leb_le|apply Nat.ltb_lt]; lia).
    rewrite Nat.sub_0_r. unfold Gs. rewrite nth_upd_nth_if by (rewrite Hr; lia).
    destruct (Nat.eqb t' (S t)) eqn:E.
    + apply Nat.eqb_eq in E. subst t'. cbn [colf]. unfold sim_step. rewrite vget_vmk by exact Hi.
      unfold matcol. rewrite vget_vmk by exact Hi. apply fold_left_ext_in. intros acc j Hj. apply in_seq in Hj.
      rewrite (Hinv t j) by lia. reflexivity.
    + apply Nat.eqb_neq in E. apply (Hinv t' i); [lia|exact Hi].
Qed.

Theorem gen_simulate_linear_model_tie :
  gen_simulate_linear_model A x0 v (Z.of_nat ts) =
    (match simulate_linear_model n A x0 v ts with Some X => X | None => [] end, true).
Proof.
  unfold gen_simulate_linear_model, simulate_linear_model. cbv zeta.
  destruct HA as [HAl HAr]. unfold nrows2. rewrite HAl, !Nat2Z.id.
  destruct ts as [|ts1] eqn:Ets; [lia|]. rewrite <- Ets in *.
  set (xz := repeat (repeat nzero ts) n).
  assert (Hxz : rect n ts xz).
  { unfold xz. split; [apply repeat_length|]. intros i Hi. rewrite nth_repeat_lt by exact Hi. apply repeat_length. }
  assert (Hok : setcol2_ok xz 0 x0 = true).
  { unfold setcol2_ok. apply andb_true_intro. split; [rewrite Hx0, (proj1 Hxz); apply Nat.eqb_refl|].
    apply forallb_forall. intros row Hin. apply repeat_spec in Hin. subst row. rewrite repeat_length.
    change 0%Z with (Z.of_nat 0). rewrite widx_nat. apply inb_nat. rewrite repeat_length. lia. }
  rewrite Hok. cbn [andb].
  set (xs := setcol2 xz 0 x0).
  assert (Hrows : forall i, (i < n)%nat -> nth i xs [] = upd_nth (repeat nzero ts) 0 (nth i x0 nzero)).
  { intros i Hi. unfold xs, setcol2. rewrite nth_mapz_from by (rewrite (proj1 Hxz); exact Hi).
    rewrite Z.add_0_l, Nat2Z.id. unfold xz. rewrite nth_repeat_lt by exact Hi. rewrite repeat_length.
    change 0%Z with (Z.of_nat 0). rewrite widx_nat, Nat2Z.id. reflexivity. }
  assert (Hxs : Inv 0 xs).
  { split.
    - split; [unfold xs, setcol2; rewrite mapz_from_length; apply Hxz|]. intros i Hi. rewrite Hrows by exact Hi.
      rewrite upd_nth_length. apply repeat_length.
    - intros t' i Ht' Hi. replace t' with 0%nat by lia. unfold pget. rewrite Hrows by exact Hi.
      rewrite nth_upd_nth_eq by (rewrite repeat_length; lia). cbn [colf]. rewrite vget_vmk by exact Hi. reflexivity. }
  replace (Z.to_nat (Z.of_nat ts - 1 - 0)) with (ts - 1)%nat by lia.
  destruct (sim_loop0_tie (ts - 1) 0 xs true Hxs ltac:(lia)) as (x' & E & [Hx' Hinv]).
  change (Z.of_nat 0) with 0%Z in E. rewrite E. f_equal.
  replace ts1 with (ts - 1)%nat by lia.
  apply (nth_ext _ _ [] []); [rewrite (proj1 Hx'), length_mk; reflexivity|]. intros i Hi. rewrite (proj1 Hx') in Hi.
  rewrite nth_mk by exact Hi.
  apply (nth_ext _ _ nzero nzero); [rewrite (proj2 Hx') by exact Hi; rewrite length_vmk; reflexivity|].
  intros t Ht. rewrite (proj2 Hx') in Ht by exact Hi.
  change (nth t (vmk ts (fun t0 => vget (nth t0 (sim_cols n A (vmk n (vget x0)) (map (matcol n v) (seq 0 (ts - 1)))) []) i)) nzero)
    with (vget (vmk ts (fun t0 => vget (nth t0 (sim_cols n A (vmk n (vget x0)) (map (matcol n v) (seq 0 (ts - 1)))) []) i)) t).
  rewrite vget_vmk by exact Ht. rewrite cols_nth by lia. apply (Hinv t i); [lia|exact Hi].
Qed.
End Sim.
End Tie.

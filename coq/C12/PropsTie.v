(* C12: simulate_linear_model of quantecon/_lss.py as REGENERATED from /repo's current source on every run
   (Gen/Kernels3.v, bounds-checked translation by harness/py2coq.py) computes the hand-written model C12/Model.v,
   for EVERY Num instance, and reads/stores only inside its arrays.  Statement only; proof in C12/TieGen.v.
   The trailing `true` is the bounds flag.  Hence C12_simulate_linear_model_spec / lss_simulate_dynamics of C12/Props.v
   speak about the current text of the kernel. *)
From Coq Require Import ZArith QArith List Bool.
From QE Require Import Base.Num Gen.Kernels Gen.Kernels2 Gen.Kernels3 Base.GenLemmas Base.LinAlg C12.Model C12.TieGen.
Import ListNotations.

Theorem C12_tie_simulate_linear_model :
  forall (T : Type) (NT : Num T) (n ts vc : nat) (A v : list (list T)) (x0 : list T),
  rect n n A -> rect n vc v -> length x0 = n -> (1 <= ts)%nat -> (ts - 1 <= vc)%nat ->
  @gen_simulate_linear_model T NT A x0 v (Z.of_nat ts) =
    (match simulate_linear_model n A x0 v ts with Some X => X | None => [] end, true).
Proof. exact (@gen_simulate_linear_model_tie). Qed.
Print Assumptions C12_tie_simulate_linear_model.

Example C12_tie_simulate_linear_model_example :
  gen_simulate_linear_model [[1#2; 1]; [0; 1#3]]%Q [1; 2]%Q [[1; 0]; [0; 3]]%Q 3 = ([[1; 7#2; 29#12]; [2; 2#3; 29#9]]%Q, true) /\
  simulate_linear_model 2 [[1#2; 1]; [0; 1#3]]%Q [1; 2]%Q [[1; 0]; [0; 3]]%Q 3 = Some [[1; 7#2; 29#12]; [2; 2#3; 29#9]]%Q.
Proof. vm_compute. split; reflexivity. Qed.

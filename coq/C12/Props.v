(* C12 property theorems: statements only, each closed by `exact`, with Print Assumptions. *)
From Coq Require Import ZArith QArith List Bool.
From QE Require Import Base.Num Base.LinAlg Base.Gauss C12.Model C12.Proofs.
Import ListNotations.

Theorem C12_moment_seq_length : forall n m k l (A C G : Qmat) Ho t mu Sx,
  length (moment_seq n m k l A C G Ho t mu Sx) = t.
Proof. exact moment_seq_length. Qed.
Print Assumptions C12_moment_seq_length.

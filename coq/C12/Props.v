(* C12 property theorems: statements only, each closed by `exact`, with Print Assumptions,
   plus Examples showing that the hypotheses are satisfiable by concrete non-trivial objects. *)
From Coq Require Import ZArith QArith List Bool Lia.
From QE Require Import Base.Num Base.LinAlg Base.Gauss C12.Model C12.Proofs C12.Proofs2 C12.Proofs3 C12.Proofs4 C12.Proofs5 C12.Proofs6.
Import ListNotations.
Local Open Scope Q_scope.

(* ---------------------------------------------------------------- Kalman *)
(* measurement update = Joseph form (I-MG) Sigma (I-MG)' + M R M' whenever F is invertible *)
Theorem C12_kalman_joseph : forall n k l (G Hm xhat Sg y x' S' : Qmat),
  prior_to_filtered n k l G Hm (xhat, Sg) y = Some (x', S') ->
  exists Fi, is_inv k (kal_F n k G (outer k l Hm) Sg) Fi /\
    let M := kal_M n k G Sg Fi in
    x' = madd n 1 xhat (mmul n k 1 M (msub k 1 y (mmul k n 1 G xhat))) /\
    meq n n S' (madd n n (mmul n n n (mmul n n n (msub n n (mid n) (mmul n k n M G)) Sg)
                                     (mtr n n (msub n n (mid n) (mmul n k n M G))))
                         (mmul n k n (mmul n k k M (outer k l Hm)) (mtr n k M))).
Proof. exact kalman_joseph. Qed.
Print Assumptions C12_kalman_joseph.

(* hence symmetry and positive semidefiniteness are preserved by update, along every record *)
Theorem C12_kalman_sym_psd : forall n m k l (A C G Hm : Qmat) ys st,
  msym n (snd st) /\ mpsd n (snd st) ->
  forall st', In (Some st') (kalman_path n m k l A C G Hm st ys) -> msym n (snd st') /\ mpsd n (snd st').
Proof. exact kalman_path_sym_psd. Qed.
Print Assumptions C12_kalman_sym_psd.

Theorem C12_kalman_ops_sym_psd : forall n m k l (A C G Hm : Qmat) ops st,
  msym n (snd st) /\ mpsd n (snd st) ->
  forall st', In (Some st') (kalman_ops n m k l A C G Hm st ops) -> msym n (snd st') /\ mpsd n (snd st').
Proof. exact kalman_ops_sym_psd. Qed.
Print Assumptions C12_kalman_ops_sym_psd.

Theorem C12_kalman_update_sym_psd : forall n m k l (A C G Hm : Qmat) st y st',
  update n m k l A C G Hm st y = Some st' ->
  msym n (snd st) /\ mpsd n (snd st) -> msym n (snd st') /\ mpsd n (snd st').
Proof. exact update_sym_psd. Qed.
Print Assumptions C12_kalman_update_sym_psd.

(* one update = conditioning the joint law of (y_0, x_1) on y_0 (any dimensions, symmetric prior covariance) *)
Theorem C12_kalman_one_step_is_conditioning : forall n m k l (A C G Hm xh0 S0 y xb Sb xk Sk : Qmat),
  msym n S0 ->
  batch_conditional n m k l A C G Hm xh0 S0 [y] = Some (xb, Sb) ->
  update n m k l A C G Hm (xh0, S0) y = Some (xk, Sk) ->
  meq n 1 xb xk /\ meq n n Sb Sk.
Proof. exact kalman_one_step_is_conditioning. Qed.
Print Assumptions C12_kalman_one_step_is_conditioning.

(* sequential = batch, for EVERY non-empty observation record and all dimensions: whenever both are defined, the
   state held after the record is the conditional mean/covariance of x_t given y_0..y_{t-1} under the joint law
   (orthogonality argument: normal equations for the accumulated gains, coq/C12/Proofs4.v) *)
Theorem C12_kalman_equals_batch : forall n m k l (A C G Hm xh0 S0 : Qmat) (ys : list Qmat) xb Sb xk Sk,
  (0 < k)%nat -> msym n S0 -> ys <> [] ->
  batch_conditional n m k l A C G Hm xh0 S0 ys = Some (xb, Sb) ->
  last (kalman_path n m k l A C G Hm (xh0, S0) ys) None = Some (xk, Sk) ->
  meq n 1 xb xk /\ meq n n Sb Sk.
Proof. exact kalman_equals_batch. Qed.
Print Assumptions C12_kalman_equals_batch.

(* the recursion's own definedness suffices: if no update along the record raises (every innovation covariance F_s
   is invertible) then Var(y_0..y_{t-1}) has a trivial kernel, the Gauss-Jordan solve of batch_conditional succeeds
   (completeness of Base.Gauss.solve over Q, coq/C12/Proofs6.v), and the state is the conditional law *)
Theorem C12_kalman_defined_implies_batch_defined : forall n m k l (A C G Hm xh0 S0 : Qmat) (ys : list Qmat) st,
  (0 < k)%nat -> msym n S0 -> ys <> [] ->
  last (kalman_path n m k l A C G Hm (xh0, S0) ys) None = Some st ->
  exists b, batch_conditional n m k l A C G Hm xh0 S0 ys = Some b.
Proof.
  intros n m k l A C G Hm xh0 S0 ys st Hk Hs Hne HL. rewrite last_kalman_path in HL by assumption.
  exact (kalman_defined_batch_defined n m k l A C G Hm xh0 S0 Hk Hs ys st HL).
Qed.
Print Assumptions C12_kalman_defined_implies_batch_defined.

Theorem C12_kalman_is_conditioning : forall n m k l (A C G Hm xh0 S0 : Qmat) (ys : list Qmat) xk Sk,
  (0 < k)%nat -> msym n S0 -> ys <> [] ->
  last (kalman_path n m k l A C G Hm (xh0, S0) ys) None = Some (xk, Sk) ->
  exists xb Sb, batch_conditional n m k l A C G Hm xh0 S0 ys = Some (xb, Sb) /\
                meq n 1 xb xk /\ meq n n Sb Sk.
Proof.
  intros n m k l A C G Hm xh0 S0 ys xk Sk Hk Hs.
  exact (kalman_is_conditioning n m k l A C G Hm xh0 S0 Hk Hs ys xk Sk).
Qed.
Print Assumptions C12_kalman_is_conditioning.

(* converse NOT proved (batch defined => no update raises; needs positive semidefiniteness of the joint covariance);
   decided per case by the correspondence run (None must match None) *)
Definition kalman_defined_iff_batch_defined_full : Prop :=
  forall n m k l (A C G Hm xh0 S0 : Qmat) (ys : list Qmat),
  (0 < k)%nat -> msym n S0 -> mpsd n S0 -> ys <> [] ->
  (batch_conditional n m k l A C G Hm xh0 S0 ys = None <->
   last (kalman_path n m k l A C G Hm (xh0, S0) ys) None = None).

(* a solution of the dual Riccati equation and its gain are a fixed point of update *)
Theorem C12_kalman_stationary_fixed_point : forall n m k l (A C G Hm Sinf Fi Kinf xhat y : Qmat) st',
  is_inv k (kal_F n k G (outer k l Hm) Sinf) Fi ->
  meq n n Sinf (dual_riccati_rhs n k A G (outer n m C) Fi Sinf) ->
  stationary_K n k l A G Hm Sinf = Some Kinf ->
  update n m k l A C G Hm (xhat, Sinf) y = Some st' ->
  meq n n (snd st') Sinf /\
  meq n k Kinf (mmul n n k A (kal_M n k G Sinf Fi)) /\
  meq n 1 (fst st') (madd n 1 (mmul n n 1 A xhat) (mmul n k 1 Kinf (msub k 1 y (mmul k n 1 G xhat)))).
Proof. exact kalman_stationary_fixed_point. Qed.
Print Assumptions C12_kalman_stationary_fixed_point.

(* ---------------------------------------------------------------- LinearStateSpace *)
Theorem C12_lss_moments : forall n m k l (A C G : Qmat) Ho T mu0 S0 t mx my Sx Sy,
  nth_error (moment_seq n m k l A C G Ho T mu0 S0) t = Some (mx, my, Sx, Sy) ->
  meq n 1 mx (mmul n n 1 (mpow n A t) mu0) /\
  meq n n Sx (madd n n (mmul n n n (mmul n n n (mpow n A t) S0) (mtr n n (mpow n A t)))
                (msum n n t (fun j => mmul n n n (mmul n n n (mpow n A j) (outer n m C)) (mtr n n (mpow n A j))))) /\
  my = mmul k n 1 G mx /\ Sy = obs_cov n k l G Ho Sx.
Proof. exact lss_moments. Qed.
Print Assumptions C12_lss_moments.

Theorem C12_lss_moments_length : forall n m k l (A C G : Qmat) Ho T mu0 S0,
  length (moment_seq n m k l A C G Ho T mu0 S0) = T.
Proof. exact moment_seq_length. Qed.
Print Assumptions C12_lss_moments_length.

Theorem C12_lss_impulse : forall n m k (A C G : Qmat) j i xc yc,
  nth_error (fst (impulse_response n m k A C G j)) i = Some xc ->
  nth_error (snd (impulse_response n m k A C G j)) i = Some yc ->
  meq n m xc (mmul n n m (mpow n A i) C) /\
  meq k m yc (mmul k n m G (mmul n n m (mpow n A i) C)).
Proof. exact lss_impulse. Qed.
Print Assumptions C12_lss_impulse.

Theorem C12_lss_impulse_length : forall n m k (A C G : Qmat) j,
  length (fst (impulse_response n m k A C G j)) = S j /\ length (snd (impulse_response n m k A C G j)) = S j.
Proof. exact impulse_response_length. Qed.
Print Assumptions C12_lss_impulse_length.

Theorem C12_lss_replicate : forall n m k l (A C G : Qmat) Ho T' draws v x y,
  replicate n m k l A C G Ho T' draws v = Some (x, y) ->
  (forall j i x0 w, (i < n)%nat -> nth_error draws j = Some (x0, w) ->
     exists xj, simulate_linear_model n A x0 (mmul n m T' C w) (S T') = Some xj /\ get x i j = get xj i T') /\
  (forall j i, (j < length draws)%nat -> (i < k)%nat ->
     get y i j == sumQ n (fun a => get G i a * get x a j) +
                  match Ho with None => 0 | Some Hm => sumQ l (fun a => get Hm i a * get v a j) end).
Proof. exact lss_replicate_spec. Qed.
Print Assumptions C12_lss_replicate.

Theorem C12_lss_geometric : forall n k p (A G : Qmat) beta xt Sx Sy,
  geometric_sums n k p A G beta xt = Some (Sx, Sy) ->
  meq n p (mmul n n p (msub n n (mid n) (mscale n n beta A)) Sx) xt /\ Sy = mmul k n p G Sx.
Proof. exact lss_geometric. Qed.
Print Assumptions C12_lss_geometric.

(* the jitted kernel *)
Theorem C12_simulate_linear_model_spec : forall n (A : Qmat) x0 v ts x,
  simulate_linear_model n A x0 v ts = Some x ->
  (forall i, (i < n)%nat -> get x i 0 = vget x0 i) /\
  (forall t i, (S t < ts)%nat -> (i < n)%nat ->
     get x i (S t) == get v i t + sumQ n (fun j => get A i j * get x j t)).
Proof. exact simulate_linear_model_spec. Qed.
Print Assumptions C12_simulate_linear_model_spec.

(* simulate, as a function of the shocks drawn: x_{t+1} = A x_t + C w_{t+1}, y_t = G x_t + H v_t *)
Theorem C12_lss_simulate_dynamics : forall n m k l (A C G : Qmat) Ho ts x0 w v2 x y,
  simulate n m k l A C G Ho ts x0 w v2 = Some (x, y) ->
  (forall i, (i < n)%nat -> get x i 0 = vget x0 i) /\
  (forall t i, (S t < ts)%nat -> (i < n)%nat ->
     get x i (S t) == sumQ n (fun j => get A i j * get x j t) + sumQ m (fun j => get C i j * get w j t)) /\
  (forall t i, (t < ts)%nat -> (i < k)%nat ->
     get y i t == sumQ n (fun j => get G i j * get x j t) +
                  match Ho with None => 0 | Some Hm => sumQ l (fun j => get Hm i j * get v2 j t) end).
Proof. exact lss_simulate_dynamics. Qed.
Print Assumptions C12_lss_simulate_dynamics.

(* stationary_distributions (at most one constant state; the code rejects two or more) returns a fixed point of
   the moment recursion, provided the constant state has value 1 (the code copies mu_0 there but solves for the
   other means as if it were 1) *)
Theorem C12_lss_stationary_fixed_point : forall n m k l (A C G : Qmat) (Ho : option Qmat) (mu0 mu_x mu_y Sx Sy Syx : Qmat),
  stationary_distributions n m k l A C G Ho mu0 = StatOk mu_x mu_y Sx Sy Syx ->
  (forall sidx, partition n m A C = (1%nat, sidx) -> get mu0 (nth 0 sidx 0%nat) 0 == 1) ->
  meq n 1 (mmul n n 1 A mu_x) mu_x /\
  meq n n Sx (madd n n (mmul n n n (mmul n n n A Sx) (mtr n n A)) (outer n m C)) /\
  mu_y = mmul k n 1 G mu_x /\ Sy = obs_cov n k l G Ho Sx /\ Syx = mmul k n n G Sx.
Proof. exact lss_stationary_fixed_point. Qed.
Print Assumptions C12_lss_stationary_fixed_point.

(* ---------------------------------------------------------------- hypotheses are satisfiable *)
Definition exA : Qmat := [[1#2; 1#4]; [0; 3#4]].
Definition exC : Qmat := [[1; 0]; [1#2; 1]].
Definition exG : Qmat := [[1; 1#2]].
Definition exH : Qmat := [[1#2]].
Definition exS : Qmat := [[2; 1#2]; [1#2; 1]].
Definition exx : Qmat := [[1]; [-1#2]].

Example ex_prior_to_filtered_defined :
  exists st', prior_to_filtered 2 1 1 exG exH (exx, exS) [[3#2]] = Some st'.
Proof. eexists. vm_compute. reflexivity. Qed.

Example ex_one_step_defined :
  msym 2 exS /\
  (exists b, batch_conditional 2 2 1 1 exA exC exG exH exx exS [[[3#2]]] = Some b) /\
  (exists s, update 2 2 1 1 exA exC exG exH (exx, exS) [[3#2]] = Some s).
Proof.
  split; [apply mall2_meq; vm_compute; reflexivity|].
  split; eexists; vm_compute; reflexivity.
Qed.

Example ex_record_defined :
  let ys := [[[3#2]]; [[-1]]; [[1#4]]] in
  (exists b, batch_conditional 2 2 1 1 exA exC exG exH exx exS ys = Some b) /\
  (exists s, last (kalman_path 2 2 1 1 exA exC exG exH (exx, exS) ys) None = Some s).
Proof. split; eexists; vm_compute; reflexivity. Qed.

Example ex_sym_psd_prior : msym 2 exS /\ mpsd 2 (outer 2 2 exC).
Proof. split; [apply mall2_meq; vm_compute; reflexivity|apply mpsd_outer]. Qed.

(* a 2-state model with an exactly rational stationary covariance:
   A = I, C = diag(1,2), G = I, H = diag(2/3, 3/4): Sigma_inf = diag(4/3, 9/2), K_inf = diag(3/4, 8/9) *)
Definition sA : Qmat := [[1; 0]; [0; 1]].
Definition sC : Qmat := [[1; 0]; [0; 2]].
Definition sH : Qmat := [[2#3; 0]; [0; 3#4]].
Definition sS : Qmat := [[4#3; 0]; [0; 9#2]].
Definition sFi : Qmat := [[9#16; 0]; [0; 16#81]].

Example ex_stationary_hypotheses :
  is_inv 2 (kal_F 2 2 sA (outer 2 2 sH) sS) sFi /\
  meq 2 2 sS (dual_riccati_rhs 2 2 sA sA (outer 2 2 sC) sFi sS) /\
  stationary_K 2 2 2 sA sA sH sS = Some [[3#4; 0]; [0; 8#9]] /\
  exists st', update 2 2 2 2 sA sC sA sH ([[1]; [2]], sS) [[3]; [-1]] = Some st'.
Proof.
  split; [split; apply mall2_meq; vm_compute; reflexivity|].
  split; [apply mall2_meq; vm_compute; reflexivity|].
  split; [vm_compute; reflexivity|].
  eexists. vm_compute. reflexivity.
Qed.

(* a constant state in the middle position, two other states *)
Definition cA : Qmat := [[1#2; 1#4; 1#8]; [0; 1; 0]; [1#4; -1#2; 1#4]].
Definition cC : Qmat := [[1; 0]; [0; 0]; [1#2; 1]].
Definition cG : Qmat := [[1; 0; 1]].
Definition cmu : Qmat := [[0]; [1]; [3]].

Example ex_stationary_distributions_defined :
  partition 3 2 cA cC = (1%nat, [1; 0; 2]%nat) /\ get cmu 1 0 == 1 /\
  exists a b c d e, stationary_distributions 3 2 1 1 cA cC cG (Some exH) cmu = StatOk a b c d e.
Proof.
  split; [vm_compute; reflexivity|]. split; [reflexivity|].
  do 5 eexists. vm_compute. reflexivity.
Qed.

Example ex_moments_defined :
  exists r, nth_error (moment_seq 2 2 1 1 exA exC exG (Some exH) 4 exx exS) 3 = Some r.
Proof. eexists. vm_compute. reflexivity. Qed.

Example ex_impulse_defined :
  exists xc yc, nth_error (fst (impulse_response 2 2 1 exA exC exG 3)) 3 = Some xc /\
                nth_error (snd (impulse_response 2 2 1 exA exC exG 3)) 3 = Some yc.
Proof. do 2 eexists. split; vm_compute; reflexivity. Qed.

Example ex_geometric_defined :
  exists r, geometric_sums 2 1 1 exA exG (19#20) exx = Some r.
Proof. eexists. vm_compute. reflexivity. Qed.

Example ex_simulate_defined :
  exists r, simulate 2 2 1 1 exA exC exG (Some exH) 3 [1; -1#2] [[1; -1]; [1#2; 0]] [[1; 0; -2]] = Some r.
Proof. eexists. vm_compute. reflexivity. Qed.

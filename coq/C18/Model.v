(* C18 model: every random generator as a pure function of the numbers drawn.
   quantecon/random/utilities.py (_probvec, _sample_without_replacement),
   quantecon/markov/random.py (_random_stochastic_matrix placement, random_discrete_dp assembly),
   quantecon/_graph_tools.py (_populate_random_tournament_row_col),
   quantecon/game_theory/game_generators/bimatrix_generators.py (payoff population kernels).
   Executable definitions only; proofs live in Proofs.v. *)
From Coq Require Import ZArith QArith Qround List Bool PrimFloat FloatOps SpecFloat.
From QE Require Import Base.Num C16.Model.
Import ListNotations.

Fixpoint updl {A} (a : list A) (i : nat) (v : A) : list A :=
  match a, i with
  | [], _ => []
  | _ :: r, O => v :: r
  | x :: r, S i' => x :: updl r i' v
  end.

(* ------------------------------------------------------------------ _probvec(r, out)
   r.sort(); out[0] = r[0]; out[i] = r[i] - r[i-1]; out[n] = 1 - r[n-1]
   (probvec returns np.ones((m, 1)) for k = 1 without calling the kernel: empty r) *)
Section Probvec.
Context {T : Type} `{Num T}.

Fixpoint insert (x : T) (l : list T) : list T :=
  match l with
  | [] => [x]
  | y :: r => if nleb x y then x :: l else y :: insert x r
  end.
Fixpoint isort (l : list T) : list T :=
  match l with [] => [] | x :: r => insert x (isort r) end.

Fixpoint spacings (prev : T) (l : list T) : list T :=
  match l with
  | [] => [nsub none_ prev]
  | x :: r => nsub x prev :: spacings x r
  end.

Definition probvec_row (r : list T) : list T :=
  match isort r with
  | [] => [none_]
  | x :: s => x :: spacings x s
  end.

(* P[rows, cols] = data on a zero row of length n (later writes win) *)
Definition place (n : nat) (cols : list nat) (data : list T) : list T :=
  fold_left (fun row cv => updl row (fst cv) (snd cv)) (combine cols data) (repeat nzero n).
End Probvec.

(* ------------------------------------------------------------------ _sample_without_replacement(n, r, out)
   pool = arange(n); for j: idx = intp(floor(r[j]*(n-j))); out[j] = pool[idx]; pool[idx] = pool[n-j-1] *)
Fixpoint swr_loop (pool : list Z) (m : nat) (idxs : list nat) : list Z :=
  match idxs with
  | [] => []
  | idx :: rest => nth idx pool 0%Z :: swr_loop (updl pool idx (nth (m - 1) pool 0%Z)) (m - 1) rest
  end.
Definition swr (n : nat) (idxs : list nat) : list Z := swr_loop (map Z.of_nat (seq 0 n)) n idxs.

(* idx from an exact rational draw *)
Definition idx_Q (m : nat) (r : Q) : nat := Z.to_nat (Qfloor (r * inject_Z (Z.of_nat m))).
Fixpoint idxs_Q (m : nat) (rs : list Q) : list nat :=
  match rs with [] => [] | r :: rest => idx_Q m r :: idxs_Q (m - 1) rest end.

(* idx from a binary64 draw: floor of the rounded binary64 product of r and n-j; non-negative finite values only *)
Definition float_floor (x : float) : Z :=
  match Prim2SF x with
  | S754_zero _ => 0
  | S754_finite false m e => if (0 <=? e)%Z then Zpos m * 2 ^ e else Zpos m / 2 ^ (- e)
  | _ => (-1)
  end%Z.
Definition idx_F (m : nat) (r : float) : nat :=
  Z.to_nat (float_floor (PrimFloat.mul r (PrimFloat.of_uint63 (Uint63.of_Z (Z.of_nat m))))).
Fixpoint idxs_F (m : nat) (rs : list float) : list nat :=
  match rs with [] => [] | r :: rest => idx_F m r :: idxs_F (m - 1) rest end.

Definition swr_Q (n : nat) (rs : list Q) : list Z := swr n (idxs_Q n rs).
Definition swr_F (n : nat) (rs : list float) : list Z := swr n (idxs_F n rs).

(* ------------------------------------------------------------------ _random_stochastic_matrix(m, n, k):
   probvecs from the first block of uniforms (m rows of k-1), columns from the second (m rows of k)
   unless k = n; dense: P[rows, cols] = data; sparse: the same entries as COO triples *)
Section RSM.
Context {T : Type} `{Num T}.
Definition rsm_rows (n k : nat) (u1 : list (list T)) (cols : list (list Z)) : list (list T) :=
  if Nat.eqb k n then map probvec_row u1
  else map (fun pc => place n (map Z.to_nat (snd pc)) (probvec_row (fst pc))) (combine u1 cols).
End RSM.
Definition rsm_Q (n k : nat) (u1 u2 : list (list Q)) : list (list Q) :=
  rsm_rows n k u1 (map (swr_Q n) u2).
Definition rsm_F (n k : nat) (u1 u2 : list (list float)) : list (list float) :=
  rsm_rows n k u1 (map (swr_F n) u2).

(* random_discrete_dp: sa_indices and the reshape of R (L -> n x m) and Q (L x n -> n x m x n) *)
Definition sa_indices (ns na : nat) : list Z * list Z :=
  (flat_map (fun s => repeat (Z.of_nat s) na) (seq 0 ns),
   flat_map (fun _ => map Z.of_nat (seq 0 na)) (seq 0 ns)).
Fixpoint chunk {A} (fuel : nat) (m : nat) (l : list A) : list (list A) :=
  match fuel with
  | O => []
  | S f => firstn m l :: chunk f m (skipn m l)
  end.

(* ------------------------------------------------------------------ _populate_random_tournament_row_col *)
Definition pairs (n : nat) : list (nat * nat) :=
  flat_map (fun i => map (fun j => (i, j)) (seq (S i) (n - S i))) (seq 0 n).
Definition orient (pr : (nat * nat) * Q) : nat * nat :=
  if Qltb (snd pr) (1 # 2) then fst pr else (snd (fst pr), fst (fst pr)).
Definition tournament_edges (n : nat) (rs : list Q) : list (nat * nat) :=
  map orient (combine (pairs n) rs).
(* CSR adjacency: sorted out-neighbours of node i *)
Definition nbrs (n : nat) (edges : list (nat * nat)) (i : nat) : list Z :=
  map Z.of_nat (filter (fun j => existsb (fun e => Nat.eqb (fst e) i && Nat.eqb (snd e) j) edges) (seq 0 n)).

(* ------------------------------------------------------------------ bimatrix generator kernels *)
Open Scope Q_scope.
Definition tab2 {A} (n m : nat) (f : nat -> nat -> A) : list (list A) :=
  map (fun i => map (fun j => f i j) (seq 0 m)) (seq 0 n).

(* _populate_blotto_payoff_arrays: payoff_arrays[0][i, j], payoff_arrays[1][j, i] = payoffs *)
Definition blotto_cell (ai aj : list Z) (values : list (Q * Q)) : Q * Q :=
  fold_left (fun p xyv =>
               let '(x, y, v) := xyv in
               if (x =? y)%Z then (fst p + fst v / 2, snd p + snd v / 2)
               else if (x <? y)%Z then (fst p, snd p + snd v)
               else (fst p + fst v, snd p))
            (combine (combine ai aj) values) (0, 0).
Definition blotto_payoffs (actions : list (list Z)) (values : list (Q * Q)) : list (list Q) * list (list Q) :=
  let n := length actions in
  let a := fun i => nth i actions [] in
  (tab2 n n (fun i j => fst (blotto_cell (a i) (a j) values)),
   tab2 n n (fun j i => snd (blotto_cell (a i) (a j) values))).
Definition blotto_game (h t : Z) (values : list (Q * Q)) : option (list (list Q) * list (list Q)) :=
  match simplex_grid h t with
  | None => None
  | Some actions => Some (blotto_payoffs actions values)
  end.

(* _populate_ranking_payoff_arrays(payoff_arrays, scores, costs) *)
Definition ranking_payoffs (n : nat) (s0 s1 : list Z) (c0 c1 : list Q) : list (list Q) * list (list Q) :=
  let cost := fun (c : list Q) i => match i with O => 0 | S i' => - nth i' c 0 end in
  let sc := fun (s : list Z) i => nth i s 0%Z in
  (tab2 n n (fun i j => if (sc s0 i >? sc s1 j)%Z then cost c0 i + 1
                        else if (sc s0 i <? sc s1 j)%Z then cost c0 i else cost c0 i + 1 / 2),
   tab2 n n (fun j i => if (sc s0 i >? sc s1 j)%Z then cost c1 j
                        else if (sc s0 i <? sc s1 j)%Z then cost c1 j + 1 else cost c1 j + 1 / 2)).

(* _populate_sgc_payoff_arrays: the assignments in source order; negative indices wrap as in NumPy/Numba *)
Definition pyidx (n : nat) (i : Z) : nat := Z.to_nat (if (i <? 0)%Z then i + Z.of_nat n else i).
Definition set2 (M : list (list Q)) (i j : Z) (v : Q) : list (list Q) :=
  let r := pyidx (length M) i in
  let row := nth r M [] in
  updl M r (updl row (pyidx (length row) j) v).
Definition sgc_base (n m : nat) : list (list Q) :=
  tab2 n n (fun i j => if Nat.ltb i m then (if Nat.ltb j m then 3 # 4 else 1 # 2) else 0).
Definition sgc_cycle (n m : nat) : list (list Q) :=
  let mz := Z.of_nat m in
  let M := sgc_base n m in
  let M := set2 M 0 (mz - 1) 1 in
  let M := set2 M 0 1 (1 # 2) in
  let M := fold_left (fun M i => set2 (set2 M i (i - 1) 1) i (i + 1) (1 # 2))
                     (map Z.of_nat (seq 1 (m - 2))) M in
  let M := set2 M (mz - 1) (mz - 2) 1 in
  set2 M (mz - 1) 0 (1 # 2).
Definition sgc_payoffs (k0 : nat) : list (list Q) * list (list Q) :=
  let n := (4 * k0 - 1)%nat in
  let m := ((n + 1) / 2 - 1)%nat in
  let mz := Z.of_nat m in
  let k := ((m + 1) / 2)%nat in
  fold_left (fun P h =>
               let i := (mz + 2 * Z.of_nat h)%Z in
               let P0 := set2 (set2 (fst P) i i (3 # 4)) (i + 1) (i + 1) (3 # 4) in
               let P1 := set2 (set2 (snd P) i (i + 1) (3 # 4)) (i + 1) i (3 # 4) in
               (P0, P1))
            (seq 0 k) (sgc_cycle n m, sgc_cycle n m).

(* _populate_tournament_payoff_array0 / array1 *)
Definition indicator (m : Z) (hits : list Z) : list Q :=
  map (fun c => if existsb (Z.eqb c) hits then 1 else 0) (zrange m).
Definition tg_payoff0_row (k m : Z) (nb : list Z) : list Q :=
  let d := Z.of_nat (length nb) in
  if (d <? k)%Z then indicator m []
  else let walk := k_walk (S (Z.to_nat (binomZ d k))) d (zrange k) in
       indicator m (map (fun a => k_array_rank_jit (map (fun t => zget nb t) a)) walk).
Fixpoint iter_next (fuel : nat) (X : list Z) : list (list Z) :=
  match fuel with O => [] | S f => X :: iter_next f (next_k_array X) end.
Definition tg_payoff1 (n k m : Z) : list (list Q) :=
  map (indicator n) (iter_next (Z.to_nat m) (zrange k)).
Definition tournament_game (n k : nat) (rs : list Q) : list (list Q) * list (list Q) :=
  let m := binomZ (Z.of_nat n) (Z.of_nat k) in
  let edges := tournament_edges n rs in
  (map (fun i => tg_payoff0_row (Z.of_nat k) m (nbrs n edges i)) (seq 0 n),
   tg_payoff1 (Z.of_nat n) (Z.of_nat k) m).

(* unit_vector_game (avoid_pure_nash = False): payoff_arrays[0][ones_ind, arange(n)] = 1 *)
Definition unit_vector_payoff0 (n : nat) (ones_ind : list Z) : list (list Q) :=
  tab2 n n (fun i j => if (Z.of_nat i =? nth j ones_ind (-1)%Z)%Z then 1 else 0).

Definition qsum (l : list Q) : Q := fold_right Qplus 0 l.

(* the largest value numpy's random() can return: 1 - 2^-53 *)
Definition max_uniform : float := 0x1.fffffffffffffp-1%float.

(* C18: tie lemmas between _probvec and _sample_without_replacement of quantecon/random/utilities.py as REGENERATED from
   /repo's current source (Gen/Kernels3.v) and the hand-written model C18/Model.v, for every Num instance.
   Library operations that are not Python text are extra parameters of the generated kernels:
     sort_      : r.sort()                         (the model sorts with isort)
     floor_mul_ : np.intp(np.floor(r[j] * (n-j)))  (the model: idx_Q / idx_F). *)
From Coq Require Import ZArith List Bool Arith Lia.
From QE Require Import Base.Num Gen.Kernels Gen.Kernels2 Gen.Kernels3 Base.GenLemmas C18.Model.
Import ListNotations.

Section Tie.
Context {T : Type} {NT : Num T}.

(* ------------------------------------------------------------------ _probvec *)
Fixpoint diffs (prev : T) (l : list T) : list T :=
  match l with [] => [] | x :: r => nsub x prev :: diffs x r end.
Lemma last_indep : forall (l : list T) a d1 d2, last (a :: l) d1 = last (a :: l) d2.
Proof. induction l as [|b l IH]; intros a d1 d2; [reflexivity|]. change (last (b :: l) d1 = last (b :: l) d2). apply IH. Qed.
Lemma nth_length_cons : forall (s : list T) x d, nth (length s) (x :: s) d = last s x.
Proof.
  induction s as [|a s IH]; intros x d; [reflexivity|]. change (nth (length s) (a :: s) d = last (a :: s) x). rewrite IH.
  destruct s as [|b s]; [reflexivity|]. change (last (a :: b :: s) x) with (last (b :: s) x). apply last_indep.
Qed.
Lemma spacings_diffs : forall l prev, spacings prev l = diffs prev l ++ [nsub none_ (last l prev)].
Proof.
  induction l as [|x l IH]; intros prev; cbn [spacings diffs app]; [reflexivity|].
  rewrite IH. destruct l as [|t l]; [reflexivity|]. cbn [app]. do 3 f_equal. f_equal.
  change (last (x :: t :: l) prev) with (last (t :: l) prev). apply last_indep.
Qed.
Lemma diffs_length : forall l prev, length (diffs prev l) = length l.
Proof. induction l as [|x l IH]; intros prev; cbn; [reflexivity|]. rewrite IH. reflexivity. Qed.
Lemma nth_last_app (p l : list T) d : p <> [] -> nth (length p - 1) (p ++ l) d = last p d.
Proof.
  intro Hp. rewrite app_nth1 by (destruct p; [congruence|cbn; lia]). clear l.
  induction p as [|x p IH]; [congruence|]. destruct p as [|y p]; [reflexivity|].
  cbn [length last] in *. replace (S (S (length p)) - 1)%nat with (S (length p)) by lia. cbn [nth].
  rewrite <- IH by discriminate. replace (S (length p) - 1)%nat with (length p) by lia. reflexivity.
Qed.

Lemma probvec_loop0_tie : forall l (ps pre rest : list T) ok, ps <> [] -> length pre = length ps -> (length l <= length rest)%nat ->
  gen_probvec_loop0 (length l) (Z.of_nat (length ps)) (pre ++ rest) ok (ps ++ l) =
    (pre ++ diffs (last ps nzero) l ++ skipn (length l) rest, ok).
Proof.
  induction l as [|x l IH]; intros ps pre rest ok Hps Hpre Hrest; cbn [length gen_probvec_loop0 diffs skipn app]; [reflexivity|].
  destruct rest as [|y rest]; [cbn in Hrest; lia|]. cbn [length] in Hrest.
  assert (Hp1 : (1 <= length ps)%nat) by (destruct ps; [congruence|cbn; lia]).
  replace (Z.of_nat (length ps) - 1)%Z with (Z.of_nat (length ps - 1)) by lia.
  rewrite !inb_nat by (rewrite ?app_length; cbn; lia). rewrite !andb_true_r, !Nat2Z.id.
  rewrite nth_last_app by exact Hps. rewrite app_nth2, Nat.sub_diag by lia. cbn [nth].
  pose proof (upd_nth_mid pre y (nsub x (last ps nzero)) rest) as Hu. rewrite Hpre in Hu. rewrite Hu. clear Hu.
  replace (Z.of_nat (length ps) + 1)%Z with (Z.of_nat (length (ps ++ [x]))) by (rewrite app_length; cbn; lia).
  replace (pre ++ nsub x (last ps nzero) :: rest) with ((pre ++ [nsub x (last ps nzero)]) ++ rest) by (rewrite <- app_assoc; reflexivity).
  replace (ps ++ x :: l) with ((ps ++ [x]) ++ l) by (rewrite <- app_assoc; reflexivity).
  rewrite IH; [|destruct ps; discriminate|rewrite !app_length; cbn; lia|lia].
  rewrite last_last, <- app_assoc. reflexivity.
Qed.

Theorem gen_probvec_tie (sort_ : list T -> list T) (r out : list T) :
  length (sort_ r) = length r -> (1 <= length r)%nat -> length out = S (length r) ->
  gen_probvec sort_ r out =
    ((sort_ r, match sort_ r with [] => [none_] | x :: s => x :: spacings x s end), true).
Proof.
  intros Hs Hn Ho. unfold gen_probvec. cbv zeta.
  destruct (sort_ r) as [|x s] eqn:Es; [cbn in Hs; lia|]. cbn [length] in Hs.
  destruct out as [|o0 out]; [discriminate|]. cbn [length] in Ho.
  rewrite !inb_0 by (cbn; lia). cbn [andb]. change (Z.to_nat 0) with 0%nat. cbn [nth upd_nth].
  replace (Z.to_nat (Z.of_nat (length r) - 1)) with (length s) by lia.
  pose proof (probvec_loop0_tie s [x] [x] out true ltac:(discriminate) eq_refl ltac:(lia)) as E.
  cbn [length app last] in E. change (Z.of_nat 1) with 1%Z in E. rewrite E. clear E.
  replace (Z.of_nat (length r) - 1)%Z with (Z.of_nat (length s)) by lia.
  change (x :: s) with ([x] ++ s). rewrite inb_nat by (rewrite app_length; cbn; lia).
  assert (Hlen : length (x :: diffs x s) = length r) by (cbn [length]; rewrite diffs_length; lia).
  replace (Z.of_nat (length r)) with (Z.of_nat (length (x :: diffs x s))) by (rewrite Hlen; reflexivity).
  assert (Hsk : exists y, skipn (length s) out = [y]).
  { assert (Hl : length (skipn (length s) out) = 1%nat) by (rewrite skipn_length; lia).
    destruct (skipn (length s) out) as [|y [|z t]]; cbn in Hl; try lia. exists y. reflexivity. }
  destruct Hsk as [y Ey]. rewrite Ey.
  change (x :: diffs x s ++ [y]) with ((x :: diffs x s) ++ [y]).
  rewrite inb_nat by (rewrite app_length; cbn; lia). rewrite !Nat2Z.id, upd_nth_mid. cbn [andb].
  f_equal. f_equal. cbn [app]. f_equal. rewrite spacings_diffs. f_equal. f_equal. f_equal.
  change ([x] ++ s) with (x :: s). apply nth_length_cons.
Qed.

(* ------------------------------------------------------------------ _sample_without_replacement *)
Lemma updl_upd_nth {A} : forall (l : list A) i v, upd_nth l i v = updl l i v.
Proof. induction l as [|x l IH]; intros [|i] v; cbn; reflexivity. Qed.
Lemma zs_nth (l : list nat) i : nth i (map Z.of_nat l) 0%Z = Z.of_nat (nth i l 0%nat).
Proof. change 0%Z with (Z.of_nat 0). apply map_nth. Qed.

(* the indices the kernel computes from the draws: idx_j = floor_mul r_j (m - j) *)
Fixpoint idxs_of (fm : T -> Z -> Z) (m : nat) (rs : list T) : list nat :=
  match rs with [] => [] | r :: rest => Z.to_nat (fm r (Z.of_nat m)) :: idxs_of fm (m - 1) rest end.
(* every index falls into the shrinking pool *)
Fixpoint idxs_ok (fm : T -> Z -> Z) (m : nat) (rs : list T) : Prop :=
  match rs with [] => True | r :: rest => (0 <= fm r (Z.of_nat m) < Z.of_nat m)%Z /\ idxs_ok fm (m - 1) rest end.

Lemma swr_loop_tie (fm : T -> Z -> Z) (n : nat) : forall rs (rp : list T) (op orest : list Z) (pool : list Z) ok m,
  length pool = n -> (m + length rp = n)%nat -> length op = length rp -> (length rs <= length orest)%nat ->
  idxs_ok fm m rs ->
  exists pool',
  gen_sample_without_replacement_loop0 (length rs) (Z.of_nat (length rp)) (op ++ orest) pool ok (Z.of_nat n) (rp ++ rs) fm =
    (op ++ swr_loop pool m (idxs_of fm m rs) ++ skipn (length rs) orest, pool', ok).
Proof.
  induction rs as [|r rs IH]; intros rp op orest pool ok m Hp Hm Hop Hor Hok; cbn [length gen_sample_without_replacement_loop0 idxs_of swr_loop skipn app].
  - exists pool. reflexivity.
  - destruct orest as [|o orest]; [cbn in Hor; lia|]. cbn [length] in Hor. cbn [idxs_ok] in Hok. destruct Hok as [Hidx Hok].
    rewrite inb_nat by (rewrite app_length; cbn; lia). rewrite Nat2Z.id, app_nth2, Nat.sub_diag by lia. cbn [nth].
    replace (Z.of_nat n - Z.of_nat (length rp))%Z with (Z.of_nat m) by lia.
    set (idx := fm r (Z.of_nat m)) in *.
    assert (Hi1 : inb idx pool = true) by (unfold inb; apply andb_true_intro; split; [apply Z.leb_le|apply Z.ltb_lt]; lia).
    assert (Hi2 : inb (Z.of_nat m - 1) pool = true) by (unfold inb; apply andb_true_intro; split; [apply Z.leb_le|apply Z.ltb_lt]; lia).
    rewrite Hi1, Hi2, inb_nat by (rewrite app_length; cbn; lia). rewrite !andb_true_r.
    pose proof (upd_nth_mid op o (nth (Z.to_nat idx) pool 0%Z) orest) as Hu. rewrite Hop in Hu. rewrite Hu. clear Hu.
    replace (Z.to_nat (Z.of_nat m - 1)) with (m - 1)%nat by lia.
    replace (Z.of_nat (length rp) + 1)%Z with (Z.of_nat (length (rp ++ [r]))) by (rewrite app_length; cbn; lia).
    replace (op ++ nth (Z.to_nat idx) pool 0%Z :: orest) with ((op ++ [nth (Z.to_nat idx) pool 0%Z]) ++ orest) by (rewrite <- app_assoc; reflexivity).
    replace (rp ++ r :: rs) with ((rp ++ [r]) ++ rs) by (rewrite <- app_assoc; reflexivity).
    destruct (IH (rp ++ [r]) (op ++ [nth (Z.to_nat idx) pool 0%Z]) orest (upd_nth pool (Z.to_nat idx) (nth (m - 1) pool 0%Z)) ok (m - 1)%nat)
      as (pool' & E); [rewrite upd_nth_length; exact Hp|rewrite app_length; cbn; lia|rewrite !app_length; cbn; lia|lia|exact Hok|].
    exists pool'. rewrite E. rewrite <- app_assoc. cbn [app]. rewrite updl_upd_nth. reflexivity.
Qed.

Theorem gen_sample_without_replacement_tie (fm : T -> Z -> Z) (n : nat) (r : list T) (out : list Z) :
  length out = length r -> idxs_ok fm n r ->
  gen_sample_without_replacement fm (Z.of_nat n) r out = (swr n (idxs_of fm n r), true).
Proof.
  intros Ho Hok. unfold gen_sample_without_replacement, swr. cbv zeta. rewrite Nat2Z.id.
  replace (Z.to_nat (Z.of_nat (length r) - 0)) with (length r) by lia.
  destruct (swr_loop_tie fm n r [] [] out (map Z.of_nat (seq 0 n)) true n) as (pool' & E);
    [rewrite map_length, seq_length; reflexivity|cbn; lia|reflexivity|lia|exact Hok|].
  cbn [length app] in E. change (Z.of_nat 0) with 0%Z in E. rewrite E. rewrite skipn_all2, app_nil_r by lia. reflexivity.
Qed.
End Tie.

(* the model's index functions are instances of idxs_of *)
Lemma idxs_of_Q : forall rs m, idxs_of (fun (r : QArith_base.Q) m => Qround.Qfloor (QArith_base.Qmult r (QArith_base.inject_Z m))) m rs = idxs_Q m rs.
Proof. induction rs as [|r rs IH]; intros m; cbn [idxs_of idxs_Q]; [reflexivity|]. rewrite IH. reflexivity. Qed.
Lemma idxs_of_F : forall rs m,
  idxs_of (fun (r : PrimFloat.float) m => float_floor (PrimFloat.mul r (PrimFloat.of_uint63 (Uint63.of_Z m)))) m rs = idxs_F m rs.
Proof. induction rs as [|r rs IH]; intros m; cbn [idxs_of idxs_F]; [reflexivity|]. rewrite IH. reflexivity. Qed.

(* C18 property theorems: statements only, each closed by `exact`, with Print Assumptions. *)
From Coq Require Import ZArith QArith List Bool.
From QE Require Import Base.Num C16.Model C18.Model C18.Proofs.
Import ListNotations.

Theorem C18_updl_length : forall (A : Type) (a : list A) i v, length (updl a i v) = length a.
Proof. exact @updl_length. Qed.
Print Assumptions C18_updl_length.

(* C18 property theorems: statements only, each closed by `exact`, with Print Assumptions.
   Every generator is a pure function of the numbers drawn; theorems are about the exact-rational
   instance of coq/C18/Model.v unless they quantify over the index list itself. *)
From Coq Require Import ZArith QArith List Bool.
From QE Require Import Base.Num Base.Cases C16.Model C16.Proofs2 C05.Model C18.Model C18.Proofs C18.Proofs2.
Import ListNotations.
Local Open Scope Q_scope.

(* probvec: for ANY draws in [0,1) (zero and equal draws included) the output is a point of the unit simplex *)
Theorem C18_probvec_simplex : forall r : list Q, Forall (fun x => 0 <= x < 1) r ->
  Forall (fun x => 0 <= x) (@probvec_row Q NumQ r) /\ qsum (@probvec_row Q NumQ r) == 1 /\
  length (@probvec_row Q NumQ r) = S (length r).
Proof. exact probvec_simplex. Qed.
Print Assumptions C18_probvec_simplex.

(* pool-swap sampling: whatever produced the indices (exact or binary64 product), if idx_j < n-j for
   every j then the k outputs are distinct and lie in [0,n) *)
Theorem C18_swr_distinct : forall n idxs, (length idxs <= n)%nat ->
  (forall j, (j < length idxs)%nat -> (nth j idxs 0 < n - j)%nat) ->
  length (swr n idxs) = length idxs /\ NoDup (swr n idxs) /\
  Forall (fun v => (0 <= v < Z.of_nat n)%Z) (swr n idxs).
Proof. exact swr_spec. Qed.
Print Assumptions C18_swr_distinct.

(* in exact arithmetic floor(r (n-j)) < n-j for every r in [0,1): the whole sampler is correct *)
Theorem C18_swr_exact_draws : forall n rs, (length rs <= n)%nat -> Forall (fun r => 0 <= r < 1) rs ->
  length (swr_Q n rs) = length rs /\ NoDup (swr_Q n rs) /\
  Forall (fun v => (0 <= v < Z.of_nat n)%Z) (swr_Q n rs).
Proof. exact swr_Q_spec. Qed.
Print Assumptions C18_swr_exact_draws.

(* the binary64 index for the largest uniform 1-2^-53: bound checked for every pool size up to 4096
   (finite domain in the statement; the general binary64 fact is NOT proved) *)
Theorem C18_idx_binary64_extreme : forall m, In m (seq 1 4096) ->
  (idx_F m max_uniform < m)%nat.
Proof.
  intros m H.
  assert (E : forallb (fun m => Nat.ltb (idx_F m max_uniform) m) (seq 1 4096) = true) by (vm_compute; reflexivity).
  rewrite forallb_forall in E. apply Nat.ltb_lt. apply E. exact H.
Qed.
Print Assumptions C18_idx_binary64_extreme.

(* a row of random_stochastic_matrix with k < n (u1: k-1 draws for probvec, u2: k draws for the columns):
   k distinct columns in range, zero elsewhere, the probvec values at those columns, non-negative, sum 1 *)
Theorem C18_k_sparse_rows : forall n (u1 u2 : list Q),
  S (length u1) = length u2 -> (length u2 <= n)%nat ->
  Forall (fun r => 0 <= r < 1) u1 -> Forall (fun r => 0 <= r < 1) u2 ->
  let cols := map Z.to_nat (swr_Q n u2) in
  let row := @place Q NumQ n cols (@probvec_row Q NumQ u1) in
  length row = n /\ NoDup cols /\ length cols = length u2 /\ Forall (fun c => (c < n)%nat) cols /\
  (forall c, ~ In c cols -> nth c row 0 = 0) /\
  (forall t, (t < length cols)%nat -> nth (nth t cols 0%nat) row 0 = nth t (@probvec_row Q NumQ u1) 0) /\
  (forall c, 0 <= nth c row 0) /\
  qsum row == 1.
Proof. exact rsm_row_spec. Qed.
Print Assumptions C18_k_sparse_rows.

(* finding D8 on the model: a zero draw gives a zero spacing, so fewer than k strictly positive entries *)
Theorem C18_probvec_zero_spacing_refuted : exists r : list Q,
  Forall (fun x => 0 <= x < 1) r /\ Qeq_bool (nth 0 (@probvec_row Q NumQ r) 1) 0 = true.
Proof. exists [0; 1 # 2]. split; [repeat constructor; vm_compute; congruence | vm_compute; reflexivity]. Qed.
Print Assumptions C18_probvec_zero_spacing_refuted.

(* random_tournament_graph kernel: every unordered pair gets exactly one orientation, no loops, nodes in range *)
Theorem C18_tournament_spec : forall n rs, (length (pairs n) <= length rs)%nat ->
  let edges := tournament_edges n rs in
  (forall a b, In (a, b) edges -> a <> b /\ (a < n)%nat /\ (b < n)%nat) /\
  (forall i j, (i < j < n)%nat ->
     (In (i, j) edges /\ ~ In (j, i) edges) \/ (~ In (i, j) edges /\ In (j, i) edges)).
Proof. exact tournament_spec. Qed.
Print Assumptions C18_tournament_spec.

(* Blotto kernel = definition: entry [i][j] of player 0 and entry [j][i] of player 1 are the sums over
   hills of the hill's value to the side with strictly more troops, half of it on ties *)
Theorem C18_blotto_payoff_spec : forall actions values i j,
  (i < length actions)%nat -> (j < length actions)%nat ->
  let a := fun t => nth t actions [] in
  let '(P0, P1) := blotto_payoffs actions values in
  nth j (nth i P0 []) 0 == qsum (map blotto_share0 (combine (combine (a i) (a j)) values)) /\
  nth i (nth j P1 []) 0 == qsum (map blotto_share1 (combine (combine (a i) (a j)) values)).
Proof. exact blotto_payoff_spec. Qed.
Print Assumptions C18_blotto_payoff_spec.

Theorem C18_ranking_payoff_spec : forall n s0 s1 c0 c1 i j, (i < n)%nat -> (j < n)%nat ->
  let sc := fun (s : list Z) t => nth t s 0%Z in
  let cost := fun (c : list Q) t => match t with O => 0 | S t' => - nth t' c 0 end in
  let '(P0, P1) := ranking_payoffs n s0 s1 c0 c1 in
  nth j (nth i P0 []) 0 = (if (sc s0 i >? sc s1 j)%Z then cost c0 i + 1
                           else if (sc s0 i <? sc s1 j)%Z then cost c0 i else cost c0 i + 1 / 2) /\
  nth i (nth j P1 []) 0 = (if (sc s0 i >? sc s1 j)%Z then cost c1 j
                           else if (sc s0 i <? sc s1 j)%Z then cost c1 j + 1 else cost c1 j + 1 / 2).
Proof. exact ranking_payoff_spec. Qed.
Print Assumptions C18_ranking_payoff_spec.

Theorem C18_unit_vector_spec : forall n ones i j, (i < n)%nat -> (j < n)%nat ->
  nth j (nth i (unit_vector_payoff0 n ones) []) 0 = if (Z.of_nat i =? nth j ones (-1)%Z)%Z then 1 else 0.
Proof. exact unit_vector_spec. Qed.
Print Assumptions C18_unit_vector_spec.

(* tournament_game payoff kernels, PARTIAL: entry c of node i's row is 1 exactly when c is the
   k_array_rank_jit of the image (under i's sorted out-neighbour list nb) of a position set visited by the
   next_k_array walk over [0,d), all zero when d < k; row j of the column player's matrix is the indicator of
   the j-th array of the walk from [0..k-1].  The full statement follows below (C18_tournament_payoff_spec). *)
Theorem C18_tournament_payoff0_partial : forall k m nb c, (0 <= c < m)%Z ->
  let d := Z.of_nat (length nb) in
  let ranks := map (fun a => k_array_rank_jit (map (fun t => zget nb t) a))
                   (k_walk (S (Z.to_nat (binomZ d k))) d (zrange k)) in
  nth (Z.to_nat c) (tg_payoff0_row k m nb) 0 =
    if (d <? k)%Z then 0 else if existsb (Z.eqb c) ranks then 1 else 0.
Proof. exact tg_payoff0_row_spec. Qed.
Print Assumptions C18_tournament_payoff0_partial.

Theorem C18_tournament_payoff1_partial : forall n k m j v, (j < Z.to_nat m)%nat -> (0 <= v < n)%Z ->
  nth (Z.to_nat v) (nth j (tg_payoff1 n k m) []) 0 =
    if existsb (Z.eqb v) (nth j (iter_next (Z.to_nat m) (zrange k)) []) then 1 else 0.
Proof. exact tg_payoff1_spec. Qed.
Print Assumptions C18_tournament_payoff1_partial.

(* tournament_game payoffs = definition (uses C16's theorems: the next_k_array walk enumerates the k-subsets in
   combinatorial-number-system order, rank is injective).  k_array k X: X strictly increasing, length k, X[0] >= 0.
   Row player: entry [i][rank X] is 1 iff node i dominates (has an edge to) every node of the k-subset X, else 0;
   column player: entry [rank X][v] is 1 iff v is in X.  Premise on Y: the int64 guard of C16 (no comb_jit product
   overflows for k-subsets of [0,n)), satisfiable - see ex_rank_guard for the property's largest scope n=7, k=3. *)
Theorem C18_tournament_payoff_spec : forall n k rs i X,
  (1 <= k)%nat -> (i < n)%nat ->
  (forall Y, k_array k Y -> (last Y 0 < Z.of_nat n)%Z -> k_array_rank_jit Y = k_array_rank Y) ->
  k_array k X -> (last X 0 < Z.of_nat n)%Z ->
  let edges := tournament_edges n rs in
  let c := Z.to_nat (k_array_rank X) in
  (0 <= k_array_rank X < binomZ (Z.of_nat n) (Z.of_nat k))%Z /\
  nth c (nth i (fst (tournament_game n k rs)) []) 0 =
    (if forallb (fun v => existsb (fun e => Nat.eqb (fst e) i && Nat.eqb (snd e) (Z.to_nat v)) edges) X then 1 else 0) /\
  forall v, (0 <= v < Z.of_nat n)%Z ->
    nth (Z.to_nat v) (nth c (snd (tournament_game n k rs)) []) 0 = if existsb (Z.eqb v) X then 1 else 0.
Proof. exact tournament_payoff_spec. Qed.
Print Assumptions C18_tournament_payoff_spec.

Example ex_rank_guard : forall Y, k_array 3 Y -> (last Y 0 < 7)%Z -> k_array_rank_jit Y = k_array_rank Y.
Proof.
  intros Y HY Hl.
  destruct (k_walk_enumerates 3 7 36 ltac:(auto) ltac:(vm_compute; auto)) as [_ [Hw _]].
  assert (Hin : In Y (k_walk 36 7 (zrange 3))) by (apply Hw; split; assumption).
  assert (E : forallb (fun a => Z.eqb (k_array_rank_jit a) (k_array_rank a)) (k_walk 36 7 (zrange 3)) = true)
    by (vm_compute; reflexivity).
  rewrite forallb_forall in E. apply Z.eqb_eq. apply E. exact Hin.
Qed.

(* SGC game: the C05 model of support_enumeration applied to the model's sgc_game(k) returns exactly one
   equilibrium, uniform on the first 2k-1 actions of each player.  Finite domain in the statement (k = 1, 2),
   decided by vm_compute over exact rationals; k = 3 (705431 support pairs of an 11 x 11 game) is left to the
   oracle (quantecon's own support_enumeration on the implementation's sgc_game(3)). *)
Definition sgc_check (k : nat) : bool :=
  let '(P0, P1) := sgc_payoffs k in
  let n := (4 * k - 1)%nat in
  let m := (2 * k - 1)%nat in
  let u := map (fun i => if Nat.ltb i m then 1 / inject_Z (Z.of_nat m) else 0) (seq 0 n) in
  list_eqb (fun p q => Qs_eqb (fst p) (fst q) && Qs_eqb (snd p) (snd q))
           (@support_enumeration Q NumQ n n P0 P1) [(u, u)].
Theorem C18_sgc_unique_equilibrium_partial : forall k, In k [1; 2]%nat -> sgc_check k = true.
Proof. intros k [<-|[<-|[]]]; vm_compute; reflexivity. Qed.
Print Assumptions C18_sgc_unique_equilibrium_partial.
Definition C18_sgc_unique_equilibrium_full : Prop := forall k, In k [1; 2; 3]%nat -> sgc_check k = true.

(* hypotheses are satisfiable by concrete non-trivial objects *)
Example ex_probvec : Qs_eqb (@probvec_row Q NumQ [1 # 2; 1 # 8; 3 # 4]) [1 # 8; 3 # 8; 1 # 4; 1 # 4] = true.
Proof. vm_compute. reflexivity. Qed.
Example ex_swr : Zs_eqb (swr_Q 5 [9 # 10; 0; 1 # 2]) [4; 0; 1]%Z = true.
Proof. vm_compute. reflexivity. Qed.
Example ex_tournament : tournament_edges 3 [0; 1 # 2; 1 # 4] = [(0, 1); (2, 0); (1, 2)]%nat.
Proof. vm_compute. reflexivity. Qed.

(* C18: _probvec and _sample_without_replacement of quantecon/random/utilities.py as REGENERATED from /repo's current
   source on every run (Gen/Kernels3.v, bounds-checked translation by harness/py2coq.py) compute the hand-written
   model C18/Model.v, for EVERY Num instance, and read/store only inside their arrays (trailing `true`).
   Statements only; proofs in C18/TieGen.v.  Library calls are parameters of the generated kernels: sort_ (r.sort())
   and floor_mul_ (np.intp(np.floor(r[j] * (n-j)))); instantiated with the model's isort and idx_Q / idx_F they give
   the model's probvec_row and swr_Q / swr_F. *)
From Coq Require Import ZArith QArith Qround List Bool.
From Coq Require PrimFloat Uint63.
From QE Require Import Base.Num Gen.Kernels Gen.Kernels2 Gen.Kernels3 C18.Model C18.TieGen.
Import ListNotations.

Theorem C18_tie_probvec :
  forall (T : Type) (NT : Num T) (sort_ : list T -> list T) (r out : list T),
  length (sort_ r) = length r -> (1 <= length r)%nat -> length out = S (length r) ->
  @gen_probvec T NT sort_ r out =
    ((sort_ r, match sort_ r with [] => [none_] | x :: s => x :: spacings x s end), true).
Proof. exact (@gen_probvec_tie). Qed.
Print Assumptions C18_tie_probvec.

(* with the model's sort: the output is probvec_row r *)
Theorem C18_tie_probvec_isort :
  forall (T : Type) (NT : Num T) (r out : list T), (1 <= length r)%nat -> length out = S (length r) ->
  snd (fst (@gen_probvec T NT isort r out)) = probvec_row r /\ snd (@gen_probvec T NT isort r out) = true.
Proof.
  intros T NT r out Hn Ho.
  assert (Hlen : forall l : list T, length (isort l) = length l).
  { assert (Hins : forall (x : T) l, length (insert x l) = S (length l)).
    { intros x l. induction l as [|y l IH]; cbn [insert]; [reflexivity|]. destruct (nleb x y); cbn [length]; [reflexivity|]. rewrite IH. reflexivity. }
    induction l as [|x l IH]; cbn [isort]; [reflexivity|]. rewrite Hins, IH. reflexivity. }
  rewrite (gen_probvec_tie isort r out (Hlen r) Hn Ho). split; reflexivity.
Qed.
Print Assumptions C18_tie_probvec_isort.

Theorem C18_tie_sample_without_replacement :
  forall (T : Type) (NT : Num T) (fm : T -> Z -> Z) (n : nat) (r : list T) (out : list Z),
  length out = length r -> idxs_ok fm n r ->
  @gen_sample_without_replacement T NT fm (Z.of_nat n) r out = (swr n (idxs_of fm n r), true).
Proof. exact (@gen_sample_without_replacement_tie). Qed.
Print Assumptions C18_tie_sample_without_replacement.

(* with the model's index functions: swr_Q and swr_F *)
Theorem C18_tie_sample_without_replacement_Q :
  forall (n : nat) (r : list Q) (out : list Z), length out = length r ->
  idxs_ok (fun r m => Qfloor (r * inject_Z m)) n r ->
  gen_sample_without_replacement (fun r m => Qfloor (r * inject_Z m)) (Z.of_nat n) r out = (swr_Q n r, true).
Proof. intros n r out Ho Hok. rewrite (gen_sample_without_replacement_tie _ n r out Ho Hok). unfold swr_Q. rewrite idxs_of_Q. reflexivity. Qed.
Print Assumptions C18_tie_sample_without_replacement_Q.

Theorem C18_tie_sample_without_replacement_F :
  forall (n : nat) (r : list PrimFloat.float) (out : list Z), length out = length r ->
  idxs_ok (fun r m => float_floor (PrimFloat.mul r (PrimFloat.of_uint63 (Uint63.of_Z m)))) n r ->
  gen_sample_without_replacement (fun r m => float_floor (PrimFloat.mul r (PrimFloat.of_uint63 (Uint63.of_Z m)))) (Z.of_nat n) r out
    = (swr_F n r, true).
Proof. intros n r out Ho Hok. rewrite (gen_sample_without_replacement_tie _ n r out Ho Hok). unfold swr_F. rewrite idxs_of_F. reflexivity. Qed.
Print Assumptions C18_tie_sample_without_replacement_F.

Example C18_tie_example :
  gen_probvec isort [3#4; 1#4; 1#2]%Q [9;9;9;9]%Q = (([1#4; 1#2; 3#4], [1#4; 1#4; 1#4; 1#4])%Q, true) /\
  idxs_ok (fun r m => Qfloor (r * inject_Z m)) 5 [9#10; 1#10; 1#2]%Q /\
  gen_sample_without_replacement (fun r m => Qfloor (r * inject_Z m)) 5 [9#10; 1#10; 1#2]%Q [7;7;7]%Z = ([4; 0; 1]%Z, true).
Proof.
  split; [vm_compute; reflexivity|]. split; [cbn [idxs_ok]; repeat split; vm_compute; congruence|].
  split; vm_compute; reflexivity.
Qed.

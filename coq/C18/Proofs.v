(* C18 lemmas: probvec on the simplex, sampling without replacement, k-sparse rows, tournaments *)
From Coq Require Import ZArith QArith Qround List Bool Lia Lqa Sorted Permutation.
From QE Require Import Base.Num C16.Model C18.Model.
Import ListNotations.

Lemma updl_length {A} (a : list A) i v : length (updl a i v) = length a.
Proof. revert i. induction a; intros [|i]; simpl; auto. Qed.

(* ------------------------------------------------------------------ probvec (exact instance) *)
Local Open Scope Q_scope.

Lemma insert_Forall (P : Q -> Prop) x l : P x -> Forall P l -> Forall P (@insert Q NumQ x l).
Proof.
  intros Hx Hl. induction Hl; simpl; [repeat constructor; auto|].
  destruct (Qle_bool x x0); repeat constructor; auto.
Qed.
Lemma isort_Forall (P : Q -> Prop) l : Forall P l -> Forall P (@isort Q NumQ l).
Proof. induction 1; simpl; [constructor|]. apply insert_Forall; auto. Qed.
Lemma insert_length x l : length (@insert Q NumQ x l) = S (length l).
Proof. induction l; simpl; auto. destruct (Qle_bool x a); simpl; auto. Qed.
Lemma isort_length l : length (@isort Q NumQ l) = length l.
Proof. induction l; simpl; auto. rewrite insert_length. auto. Qed.

Lemma insert_sorted x l : Sorted Qle l -> Sorted Qle (@insert Q NumQ x l).
Proof.
  induction 1 as [|y l Hs IH Hd]; simpl; [repeat constructor|].
  destruct (Qle_bool x y) eqn:E.
  - apply Qle_bool_iff in E. repeat constructor; auto.
  - assert (Hyx : y <= x).
    { apply Qlt_le_weak. apply Qnot_le_lt. intro H. apply Qle_bool_iff in H. congruence. }
    constructor; [exact IH|].
    destruct l as [|z l']; simpl.
    + constructor. exact Hyx.
    + inversion Hd; subst. destruct (Qle_bool x z); constructor; auto.
Qed.
Lemma isort_sorted l : Sorted Qle (@isort Q NumQ l).
Proof. induction l; simpl; [constructor | apply insert_sorted; auto]. Qed.

Lemma spacings_spec prev l : Sorted Qle (prev :: l) -> Forall (fun x => x < 1) (prev :: l) ->
  Forall (fun x => 0 <= x) (@spacings Q NumQ prev l) /\ qsum (@spacings Q NumQ prev l) == 1 - prev /\
  length (@spacings Q NumQ prev l) = S (length l).
Proof.
  revert prev. induction l as [|x r IH]; intros prev Hs Hb; simpl.
  - inversion Hb; subst. unfold Qsubr. repeat split.
    + constructor; [|constructor]. rewrite Qred_correct. lra.
    + cbn [qsum fold_right]. rewrite Qred_correct. ring.
  - inversion Hs as [|? ? Hs' Hd]; subst. inversion Hd; subst. inversion Hb; subst.
    destruct (IH x Hs' H3) as [F [S L]].
    repeat split.
    + constructor; [|exact F]. unfold Qsubr. rewrite Qred_correct. lra.
    + rewrite S. unfold Qsubr. rewrite Qred_correct. ring.
    + rewrite L. reflexivity.
Qed.

Lemma probvec_simplex (r : list Q) : Forall (fun x => 0 <= x < 1) r ->
  Forall (fun x => 0 <= x) (@probvec_row Q NumQ r) /\ qsum (@probvec_row Q NumQ r) == 1 /\
  length (@probvec_row Q NumQ r) = S (length r).
Proof.
  intros H. unfold probvec_row.
  pose proof (isort_sorted r) as Hs. pose proof (isort_Forall _ r H) as Hf. pose proof (isort_length r) as Hl.
  destruct (@isort Q NumQ r) as [|x s]; simpl.
  - destruct r; simpl in Hl; [|discriminate]. split; [|split]; [|cbn; ring|reflexivity]. constructor; [lra|constructor].
  - assert (Hb : Forall (fun x => x < 1) (x :: s)) by (eapply Forall_impl; [|exact Hf]; simpl; intros; lra).
    destruct (spacings_spec x s Hs Hb) as [F [S L]].
    inversion Hf; subst. split; [|split].
    + constructor; [lra | exact F].
    + cbn [qsum fold_right]. fold (qsum (@spacings Q NumQ x s)). rewrite S. ring.
    + simpl in Hl. simpl. rewrite L. lia.
Qed.

(* ------------------------------------------------------------------ sampling without replacement *)
Lemma updl_split {A} (l : list A) i v d : (i < length l)%nat ->
  l = firstn i l ++ nth i l d :: skipn (S i) l /\ updl l i v = firstn i l ++ v :: skipn (S i) l.
Proof.
  revert i. induction l as [|x l IH]; intros [|i] H; simpl in *; try lia.
  - split; reflexivity.
  - destruct (IH i ltac:(lia)) as [E1 E2]. split; [f_equal; exact E1 | f_equal; exact E2].
Qed.

Lemma updl_oob {A} (l : list A) i v : (length l <= i)%nat -> updl l i v = l.
Proof. revert i. induction l as [|x l IH]; intros [|i] H; simpl in *; try lia; auto. f_equal. apply IH. lia. Qed.

Lemma firstn_updl {A} (l : list A) k i v : firstn k (updl l i v) = updl (firstn k l) i v.
Proof.
  revert k i. induction l as [|x l IH]; intros [|k] [|i]; simpl; auto. f_equal. apply IH.
Qed.

Lemma firstn_snoc {A} (l : list A) k d : (k < length l)%nat -> firstn (S k) l = firstn k l ++ [nth k l d].
Proof.
  revert k. induction l as [|x l IH]; intros [|k] H; simpl in *; try lia; auto. f_equal. apply IH. lia.
Qed.

Lemma nth_firstn {A} (l : list A) k i d : (i < k)%nat -> nth i (firstn k l) d = nth i l d.
Proof.
  revert k i. induction l as [|x l IH]; intros [|k] [|i] H; simpl; try lia; auto. apply IH. lia.
Qed.

(* one step of the pool swap: the active prefix loses exactly the drawn element *)
Lemma swr_step_perm (pool : list Z) m idx : (1 <= m <= length pool)%nat -> (idx < m)%nat ->
  Permutation (firstn m pool)
              (nth idx pool 0%Z :: firstn (m - 1) (updl pool idx (nth (m - 1) pool 0%Z))).
Proof.
  intros Hm Hi. destruct m as [|k]; [lia|]. simpl Nat.sub. rewrite Nat.sub_0_r.
  rewrite (firstn_snoc pool k 0%Z) by lia. rewrite firstn_updl.
  set (B := firstn k pool). set (lastv := nth k pool 0%Z).
  assert (LB : length B = k) by (unfold B; rewrite firstn_length; lia).
  destruct (Nat.eq_dec idx k) as [E|E].
  - subst idx. rewrite updl_oob by lia. fold lastv. symmetry. apply Permutation_cons_append.
  - assert (Hik : (idx < k)%nat) by lia.
    destruct (updl_split B idx lastv 0%Z ltac:(lia)) as [E1 E2].
    rewrite E2. rewrite <- (nth_firstn pool k idx 0%Z Hik). fold B.
    set (x := nth idx B 0%Z) in *. set (B1 := firstn idx B) in *. set (B2 := skipn (S idx) B) in *.
    rewrite E1. rewrite <- app_assoc. simpl.
    apply Permutation_sym. apply Permutation_cons_app.
    apply Permutation_app_head. apply Permutation_cons_append.
Qed.

Lemma swr_loop_spec : forall idxs pool m,
  (m <= length pool)%nat -> NoDup (firstn m pool) -> (length idxs <= m)%nat ->
  (forall j, (j < length idxs)%nat -> (nth j idxs 0 < m - j)%nat) ->
  length (swr_loop pool m idxs) = length idxs /\ NoDup (swr_loop pool m idxs) /\
  incl (swr_loop pool m idxs) (firstn m pool).
Proof.
  induction idxs as [|idx rest IH]; intros pool m Hm Hnd Hlen Hidx; simpl.
  - repeat split; [constructor | intros x []].
  - simpl in Hlen. assert (Hi : (idx < m)%nat) by (specialize (Hidx 0%nat ltac:(simpl; lia)); simpl in Hidx; lia).
    pose proof (swr_step_perm pool m idx ltac:(lia) Hi) as P.
    set (pool' := updl pool idx (nth (m - 1) pool 0%Z)) in *.
    assert (Hnd' : NoDup (nth idx pool 0%Z :: firstn (m - 1) pool')) by (eapply Permutation_NoDup; eauto).
    inversion Hnd' as [|? ? Hnotin Hnd'']; subst.
    destruct (IH pool' (m - 1)%nat) as [L [ND INC]].
    + unfold pool'. rewrite updl_length. lia.
    + exact Hnd''.
    + lia.
    + intros j Hj. specialize (Hidx (S j) ltac:(simpl; lia)). simpl in Hidx. lia.
    + split; [simpl; rewrite L; reflexivity|]. split.
      * constructor; [|exact ND]. intro Hin. apply Hnotin. apply INC. exact Hin.
      * intros y [Hy|Hy].
        -- subst y. eapply Permutation_in; [apply Permutation_sym; exact P|]. left. reflexivity.
        -- eapply Permutation_in; [apply Permutation_sym; exact P|]. right. apply INC. exact Hy.
Qed.

Lemma swr_spec n idxs : (length idxs <= n)%nat ->
  (forall j, (j < length idxs)%nat -> (nth j idxs 0 < n - j)%nat) ->
  length (swr n idxs) = length idxs /\ NoDup (swr n idxs) /\
  Forall (fun v => (0 <= v < Z.of_nat n)%Z) (swr n idxs).
Proof.
  intros Hl Hi. unfold swr. set (pool := map Z.of_nat (seq 0 n)).
  assert (Lp : length pool = n) by (unfold pool; rewrite map_length, seq_length; reflexivity).
  assert (F : firstn n pool = pool) by (rewrite <- Lp; apply firstn_all).
  destruct (swr_loop_spec idxs pool n) as [L [ND INC]]; try lia; auto.
  - rewrite F. unfold pool. apply FinFun.Injective_map_NoDup; [intros a b; lia | apply seq_NoDup].
  - split; [exact L|]. split; [exact ND|].
    apply Forall_forall. intros v Hv. apply INC in Hv. rewrite F in Hv. unfold pool in Hv.
    apply in_map_iff in Hv. destruct Hv as [i [Hv Hin]]. apply in_seq in Hin. lia.
Qed.

(* exact arithmetic: 0 <= r < 1 gives floor(r m) < m *)
Lemma idx_Q_lt m r : (0 < m)%nat -> 0 <= r < 1 -> (idx_Q m r < m)%nat.
Proof.
  intros Hm [H0 H1]. unfold idx_Q.
  set (q := inject_Z (Z.of_nat m)).
  assert (Hq : 0 < q) by (unfold q; change 0 with (inject_Z 0); rewrite <- Zlt_Qlt; lia).
  assert (Hlt : r * q < q) by nra.
  assert (Hge : 0 <= r * q) by nra.
  assert (F1 : (Qfloor (r * q) < Z.of_nat m)%Z).
  { destruct (Z_lt_le_dec (Qfloor (r * q)) (Z.of_nat m)) as [?|Hc]; [assumption|].
    exfalso. pose proof (Qfloor_le (r * q)) as Fl. rewrite Zle_Qle in Hc. fold q in Hc. lra. }
  assert (F0 : (0 <= Qfloor (r * q))%Z).
  { change 0%Z with (Qfloor 0). apply Qfloor_resp_le. exact Hge. }
  lia.
Qed.

Lemma idxs_Q_valid : forall rs m, (length rs <= m)%nat -> Forall (fun r => 0 <= r < 1) rs ->
  forall j, (j < length rs)%nat -> (nth j (idxs_Q m rs) 0 < m - j)%nat.
Proof.
  induction rs as [|r rs IH]; intros m Hl Hf j Hj; simpl in *; [lia|].
  inversion Hf; subst. destruct j as [|j].
  - rewrite Nat.sub_0_r. apply idx_Q_lt; [lia | assumption].
  - specialize (IH (m - 1)%nat ltac:(lia) H2 j ltac:(lia)). lia.
Qed.

Lemma idxs_Q_length rs m : length (idxs_Q m rs) = length rs.
Proof. revert m. induction rs; intros m; simpl; auto. Qed.

Lemma swr_Q_spec n rs : (length rs <= n)%nat -> Forall (fun r => 0 <= r < 1) rs ->
  length (swr_Q n rs) = length rs /\ NoDup (swr_Q n rs) /\
  Forall (fun v => (0 <= v < Z.of_nat n)%Z) (swr_Q n rs).
Proof.
  intros Hl Hf. unfold swr_Q.
  destruct (swr_spec n (idxs_Q n rs)) as [L R].
  - rewrite idxs_Q_length. exact Hl.
  - rewrite idxs_Q_length. apply idxs_Q_valid; auto.
  - rewrite idxs_Q_length in L. split; auto.
Qed.

(* ------------------------------------------------------------------ k-sparse rows *)
Lemma nth_updl_same {A} (l : list A) i v d : (i < length l)%nat -> nth i (updl l i v) d = v.
Proof. revert i. induction l as [|x l IH]; intros [|i] H; simpl in *; try lia; auto. apply IH. lia. Qed.
Lemma nth_updl_other {A} (l : list A) i j v d : i <> j -> nth j (updl l i v) d = nth j l d.
Proof. revert i j. induction l as [|x l IH]; intros [|i] [|j] H; simpl; auto; try congruence. Qed.

Lemma qsum_updl l i v : (i < length l)%nat -> qsum (updl l i v) == qsum l - nth i l 0 + v.
Proof.
  revert i. induction l as [|x l IH]; intros [|i] H; simpl in *; try lia.
  - ring.
  - rewrite IH by lia. ring.
Qed.

Definition placeF (row0 : list Q) (cd : list (nat * Q)) : list Q :=
  fold_left (fun row cv => updl row (fst cv) (snd cv)) cd row0.

Lemma placeF_spec : forall cd row0,
  NoDup (map fst cd) -> Forall (fun c => (c < length row0)%nat) (map fst cd) ->
  (forall c, In c (map fst cd) -> nth c row0 0 == 0) ->
  length (placeF row0 cd) = length row0 /\
  (forall c v, In (c, v) cd -> nth c (placeF row0 cd) 0 = v) /\
  (forall c, ~ In c (map fst cd) -> nth c (placeF row0 cd) 0 = nth c row0 0) /\
  qsum (placeF row0 cd) == qsum row0 + qsum (map snd cd).
Proof.
  induction cd as [|[c v] cd IH]; intros row0 Hnd Hb Hz; simpl in *.
  - repeat split; auto; [intros ? ? [] | ring].
  - inversion Hnd as [|? ? Hnotin Hnd']; subst. inversion Hb as [|? ? Hc Hb']; subst.
    set (row1 := updl row0 c v).
    destruct (IH row1) as [L [V [O S]]].
    + exact Hnd'.
    + unfold row1. rewrite updl_length. exact Hb'.
    + intros c' Hc'. unfold row1. rewrite nth_updl_other by (intro; subst; contradiction). apply Hz. right. exact Hc'.
    + fold (placeF row1 cd). split; [rewrite L; unfold row1; apply updl_length|]. split; [|split].
      * intros c' v' [E|Hin].
        -- inversion E; subst. rewrite O by exact Hnotin. unfold row1. apply nth_updl_same. exact Hc.
        -- apply V. exact Hin.
      * intros c' Hn. rewrite O by (intro; apply Hn; right; assumption).
        unfold row1. apply nth_updl_other. intro; subst. apply Hn. left. reflexivity.
      * rewrite S. unfold row1. rewrite qsum_updl by exact Hc. rewrite (Hz c) by (left; reflexivity). ring.
Qed.

Lemma qsum_repeat0 n : qsum (repeat 0 n) == 0.
Proof. induction n; simpl; [reflexivity | rewrite IHn; ring]. Qed.
Lemma nth_repeat0 n c : nth c (repeat 0 n) 0 = 0.
Proof. revert c. induction n; intros [|c]; simpl; auto. Qed.

Lemma map_fst_combine {A B} (a : list A) (b : list B) : length a = length b -> map fst (combine a b) = a.
Proof. revert b. induction a; intros [|y b] H; simpl in *; try lia; auto. f_equal. apply IHa. lia. Qed.
Lemma map_snd_combine {A B} (a : list A) (b : list B) : length a = length b -> map snd (combine a b) = b.
Proof. revert b. induction a; intros [|y b] H; simpl in *; try lia; auto. f_equal. apply IHa. lia. Qed.

Lemma place_spec n cols (data : list Q) :
  NoDup cols -> Forall (fun c => (c < n)%nat) cols -> length cols = length data ->
  let row := @place Q NumQ n cols data in
  length row = n /\
  (forall t, (t < length cols)%nat -> nth (nth t cols 0%nat) row 0 = nth t data 0) /\
  (forall c, ~ In c cols -> nth c row 0 = 0) /\
  qsum row == qsum data.
Proof.
  intros Hnd Hb Hl row. unfold row, place. fold (placeF (repeat (@nzero Q NumQ) n) (combine cols data)).
  change (@nzero Q NumQ) with 0.
  destruct (placeF_spec (combine cols data) (repeat 0 n)) as [L [V [O S]]].
  - rewrite map_fst_combine by exact Hl. exact Hnd.
  - rewrite map_fst_combine by exact Hl. rewrite repeat_length. exact Hb.
  - intros c _. rewrite nth_repeat0. reflexivity.
  - rewrite repeat_length in L. split; [exact L|]. split; [|split].
    + intros t Ht. apply V. rewrite <- (combine_nth cols data t 0%nat 0 Hl). apply nth_In.
      rewrite combine_length. lia.
    + intros c Hn. rewrite O by (rewrite map_fst_combine by exact Hl; exact Hn). apply nth_repeat0.
    + rewrite S, qsum_repeat0, map_snd_combine by exact Hl. ring.
Qed.

Lemma NoDup_map_inj_in {A B} (f : A -> B) l :
  (forall a b, In a l -> In b l -> f a = f b -> a = b) -> NoDup l -> NoDup (map f l).
Proof.
  intros Hinj Hnd. induction Hnd as [|x l Hx Hnd IH]; simpl; [constructor|].
  constructor.
  - intro Hin. apply in_map_iff in Hin. destruct Hin as [y [Ey Hy]].
    assert (y = x) by (apply Hinj; [right; exact Hy | left; reflexivity | exact Ey]). subst. contradiction.
  - apply IH. intros a b Ha Hb. apply Hinj; right; assumption.
Qed.

(* a row of random_stochastic_matrix (k < n) from exact draws in [0,1) *)
Lemma rsm_row_spec n (u1 u2 : list Q) :
  S (length u1) = length u2 -> (length u2 <= n)%nat ->
  Forall (fun r => 0 <= r < 1) u1 -> Forall (fun r => 0 <= r < 1) u2 ->
  let cols := map Z.to_nat (swr_Q n u2) in
  let row := @place Q NumQ n cols (@probvec_row Q NumQ u1) in
  length row = n /\ NoDup cols /\ length cols = length u2 /\ Forall (fun c => (c < n)%nat) cols /\
  (forall c, ~ In c cols -> nth c row 0 = 0) /\
  (forall t, (t < length cols)%nat -> nth (nth t cols 0%nat) row 0 = nth t (@probvec_row Q NumQ u1) 0) /\
  (forall c, 0 <= nth c row 0) /\
  qsum row == 1.
Proof.
  intros Hk Hn H1 H2 cols row.
  destruct (probvec_simplex u1 H1) as [Pn [Ps Pl]].
  destruct (swr_Q_spec n u2 Hn H2) as [Sl [Snd Sr]].
  assert (Cnd : NoDup cols).
  { unfold cols. apply NoDup_map_inj_in; [|exact Snd].
    intros a b Ha Hb E. rewrite Forall_forall in Sr. pose proof (Sr a Ha). pose proof (Sr b Hb). lia. }
  assert (Cl : length cols = length u2) by (unfold cols; rewrite map_length; exact Sl).
  assert (Cb : Forall (fun c => (c < n)%nat) cols).
  { unfold cols. apply Forall_map. eapply Forall_impl; [|exact Sr]. simpl. intros; lia. }
  destruct (place_spec n cols (@probvec_row Q NumQ u1) Cnd Cb ltac:(lia)) as [L [V [O S]]].
  fold row in L, V, O, S.
  repeat split; auto.
  - intros c. destruct (in_dec Nat.eq_dec c cols) as [Hin|Hout].
    + destruct (In_nth cols c 0%nat Hin) as [t [Ht Et]]. rewrite <- Et, V by exact Ht.
      rewrite Forall_forall in Pn. apply Pn. apply nth_In. lia.
    + rewrite O by exact Hout. lra.
  - rewrite S. exact Ps.
Qed.

(* ------------------------------------------------------------------ tournaments *)
Lemma in_pairs n i j : In (i, j) (pairs n) <-> (i < j < n)%nat.
Proof.
  unfold pairs. rewrite in_flat_map. split.
  - intros [x [Hx Hin]]. apply in_seq in Hx. apply in_map_iff in Hin. destruct Hin as [y [E Hy]].
    inversion E; subst. apply in_seq in Hy. lia.
  - intros H. exists i. split; [apply in_seq; lia|]. apply in_map_iff. exists j. split; [reflexivity|].
    apply in_seq. lia.
Qed.

Lemma NoDup_app' {A} (a b : list A) : NoDup a -> NoDup b -> (forall x, In x a -> ~ In x b) -> NoDup (a ++ b).
Proof.
  intros Ha Hb Hd. induction Ha as [|x a Hx Ha IH]; simpl; [exact Hb|].
  constructor.
  - intro Hin. apply in_app_or in Hin. destruct Hin as [?|Hin]; [contradiction|]. apply (Hd x); [left; reflexivity | exact Hin].
  - apply IH. intros y Hy. apply Hd. right. exact Hy.
Qed.

Lemma NoDup_pairs n : NoDup (pairs n).
Proof.
  unfold pairs. generalize (seq_NoDup n 0). generalize (seq 0 n). intros l Hl.
  induction Hl as [|x l Hx Hl IH]; simpl; [constructor|].
  apply NoDup_app'.
  - apply FinFun.Injective_map_NoDup; [intros a b E; inversion E; reflexivity | apply seq_NoDup].
  - exact IH.
  - intros [a b] Hin Hin2. apply in_map_iff in Hin. destruct Hin as [y [E _]]. inversion E; subst.
    apply in_flat_map in Hin2. destruct Hin2 as [x' [Hx' Hin2]]. apply in_map_iff in Hin2.
    destruct Hin2 as [y' [E' _]]. inversion E'; subst. contradiction.
Qed.

Lemma NoDup_fst_functional {A B} (l : list (A * B)) k v1 v2 :
  NoDup (map fst l) -> In (k, v1) l -> In (k, v2) l -> v1 = v2.
Proof.
  induction l as [|[a b] l IH]; simpl; intros Hnd H1 H2; [contradiction|].
  inversion Hnd as [|? ? Hn Hnd']; subst.
  destruct H1 as [E1|H1]; destruct H2 as [E2|H2].
  - congruence.
  - inversion E1; subst. exfalso. apply Hn. apply in_map_iff. exists (k, v2). split; auto.
  - inversion E2; subst. exfalso. apply Hn. apply in_map_iff. exists (k, v1). split; auto.
  - apply IH; auto.
Qed.

Lemma in_combine_fst {A B} (a : list A) (b : list B) x : (length a <= length b)%nat -> In x a -> exists y, In (x, y) (combine a b).
Proof.
  revert b. induction a as [|h a IH]; intros [|y b] Hl Hin; simpl in *; try lia; try contradiction.
  destruct Hin as [E|Hin].
  - subst. exists y. left. reflexivity.
  - destruct (IH b ltac:(lia) Hin) as [y' Hy']. exists y'. right. exact Hy'.
Qed.

Lemma NoDup_map_fst_combine {A B} (a : list A) (b : list B) : NoDup a -> NoDup (map fst (combine a b)).
Proof.
  intros Ha. revert b. induction Ha as [|x a Hx Ha IH]; intros [|y b]; simpl; try constructor.
  - intro Hin. apply in_map_iff in Hin. destruct Hin as [[x' y'] [E Hin]]. simpl in E. subst x'.
    apply in_combine_l in Hin. contradiction.
  - apply IH.
Qed.

Lemma tournament_spec n rs : (length (pairs n) <= length rs)%nat ->
  let edges := tournament_edges n rs in
  (forall a b, In (a, b) edges -> a <> b /\ (a < n)%nat /\ (b < n)%nat) /\
  (forall i j, (i < j < n)%nat ->
     (In (i, j) edges /\ ~ In (j, i) edges) \/ (~ In (i, j) edges /\ In (j, i) edges)).
Proof.
  intros Hl edges. unfold edges, tournament_edges.
  set (cp := combine (pairs n) rs).
  assert (Hcp : forall p r, In (p, r) cp -> (fst p < snd p < n)%nat).
  { intros [a b] r Hin. apply in_combine_l in Hin. apply in_pairs in Hin. exact Hin. }
  assert (Hedge : forall a b, In (a, b) (map orient cp) ->
            exists r, (In ((a, b), r) cp /\ Qltb r (1 # 2) = true) \/ (In ((b, a), r) cp /\ Qltb r (1 # 2) = false)).
  { intros a b Hin. apply in_map_iff in Hin. destruct Hin as [[[x y] r] [E Hin]].
    unfold orient in E. simpl in E. exists r. destruct (Qltb r (1 # 2)) eqn:Q.
    - inversion E; subst. left. auto.
    - inversion E; subst. right. auto. }
  split.
  - intros a b Hin. destruct (Hedge a b Hin) as [r [[H _]|[H _]]]; apply Hcp in H; simpl in H; lia.
  - intros i j Hij.
    assert (Hp : In (i, j) (pairs n)) by (apply in_pairs; exact Hij).
    destruct (in_combine_fst (pairs n) rs (i, j) Hl Hp) as [r Hr]. fold cp in Hr.
    assert (Hnd : NoDup (map fst cp)) by (apply NoDup_map_fst_combine, NoDup_pairs).
    destruct (Qltb r (1 # 2)) eqn:Q; [left | right]; split.
    + apply in_map_iff. exists ((i, j), r). split; [unfold orient; simpl; rewrite Q; reflexivity | exact Hr].
    + intro Hin. destruct (Hedge j i Hin) as [r' [[H _]|[H Q']]].
      * apply Hcp in H. simpl in H. lia.
      * assert (r = r') by (eapply NoDup_fst_functional; eauto). subst. congruence.
    + intro Hin. destruct (Hedge i j Hin) as [r' [[H Q']|[H _]]].
      * assert (r = r') by (eapply NoDup_fst_functional; eauto). subst. congruence.
      * apply Hcp in H. simpl in H. lia.
    + apply in_map_iff. exists ((i, j), r). split; [unfold orient; simpl; rewrite Q; reflexivity | exact Hr].
Qed.

(* ------------------------------------------------------------------ generator kernels = closed forms *)
Lemma nth_map_seq {A} (f : nat -> A) n i d : (i < n)%nat -> nth i (map f (seq 0 n)) d = f i.
Proof.
  intros H. rewrite (nth_indep _ d (f 0%nat)) by (rewrite map_length, seq_length; exact H).
  rewrite map_nth, seq_nth by exact H. reflexivity.
Qed.

Lemma tab2_nth {A} n m (f : nat -> nat -> A) i j d : (i < n)%nat -> (j < m)%nat ->
  nth j (nth i (tab2 n m f) []) d = f i j.
Proof. intros Hi Hj. unfold tab2. rewrite nth_map_seq by exact Hi. apply nth_map_seq. exact Hj. Qed.

Lemma tab2_shape {A} n m (f : nat -> nat -> A) :
  length (tab2 n m f) = n /\ Forall (fun r => length r = m) (tab2 n m f).
Proof.
  unfold tab2. split; [rewrite map_length, seq_length; reflexivity|].
  apply Forall_forall. intros r Hr. apply in_map_iff in Hr. destruct Hr as [i [E _]]. subst.
  rewrite map_length, seq_length. reflexivity.
Qed.

(* Blotto: value of hill k to the side with strictly more troops, split on ties *)
Definition blotto_share0 (xyv : Z * Z * (Q * Q)) : Q :=
  let '(x, y, v) := xyv in if (x =? y)%Z then fst v / 2 else if (x <? y)%Z then 0 else fst v.
Definition blotto_share1 (xyv : Z * Z * (Q * Q)) : Q :=
  let '(x, y, v) := xyv in if (x =? y)%Z then snd v / 2 else if (x <? y)%Z then snd v else 0.

Definition blotto_step (p : Q * Q) (xyv : Z * Z * (Q * Q)) : Q * Q :=
  let '(x, y, v) := xyv in
  if (x =? y)%Z then (fst p + fst v / 2, snd p + snd v / 2)
  else if (x <? y)%Z then (fst p, snd p + snd v)
  else (fst p + fst v, snd p).

Lemma blotto_fold l : forall p,
  fst (fold_left blotto_step l p) == fst p + qsum (map blotto_share0 l) /\
  snd (fold_left blotto_step l p) == snd p + qsum (map blotto_share1 l).
Proof.
  induction l as [|[[x y] v] l IH]; intros p.
  - simpl. split; ring.
  - change (fold_left blotto_step ((x, y, v) :: l) p) with (fold_left blotto_step l (blotto_step p (x, y, v))).
    destruct (IH (blotto_step p (x, y, v))) as [F S]. split.
    + rewrite F. cbn [map]. unfold qsum. cbn [fold_right]. unfold blotto_step, blotto_share0.
      destruct (x =? y)%Z; [cbn [fst snd]; ring|]. destruct (x <? y)%Z; cbn [fst snd]; ring.
    + rewrite S. cbn [map]. unfold qsum. cbn [fold_right]. unfold blotto_step, blotto_share1.
      destruct (x =? y)%Z; [cbn [fst snd]; ring|]. destruct (x <? y)%Z; cbn [fst snd]; ring.
Qed.

Lemma blotto_cell_spec ai aj values :
  fst (blotto_cell ai aj values) == qsum (map blotto_share0 (combine (combine ai aj) values)) /\
  snd (blotto_cell ai aj values) == qsum (map blotto_share1 (combine (combine ai aj) values)).
Proof.
  change (blotto_cell ai aj values) with (fold_left blotto_step (combine (combine ai aj) values) (0, 0)).
  destruct (blotto_fold (combine (combine ai aj) values) (0, 0)) as [F S].
  rewrite F, S. simpl. split; ring.
Qed.

Lemma blotto_payoff_spec actions values i j : (i < length actions)%nat -> (j < length actions)%nat ->
  let a := fun t => nth t actions [] in
  let '(P0, P1) := blotto_payoffs actions values in
  nth j (nth i P0 []) 0 == qsum (map blotto_share0 (combine (combine (a i) (a j)) values)) /\
  nth i (nth j P1 []) 0 == qsum (map blotto_share1 (combine (combine (a i) (a j)) values)).
Proof.
  intros Hi Hj a. unfold blotto_payoffs. rewrite !tab2_nth by assumption.
  apply blotto_cell_spec.
Qed.

(* ranking game: prize 1 to the higher score (split on ties) minus the cost of the chosen effort *)
Lemma ranking_payoff_spec n s0 s1 c0 c1 i j : (i < n)%nat -> (j < n)%nat ->
  let sc := fun (s : list Z) t => nth t s 0%Z in
  let cost := fun (c : list Q) t => match t with O => 0 | S t' => - nth t' c 0 end in
  let '(P0, P1) := ranking_payoffs n s0 s1 c0 c1 in
  nth j (nth i P0 []) 0 = (if (sc s0 i >? sc s1 j)%Z then cost c0 i + 1
                           else if (sc s0 i <? sc s1 j)%Z then cost c0 i else cost c0 i + 1 / 2) /\
  nth i (nth j P1 []) 0 = (if (sc s0 i >? sc s1 j)%Z then cost c1 j
                           else if (sc s0 i <? sc s1 j)%Z then cost c1 j + 1 else cost c1 j + 1 / 2).
Proof. intros Hi Hj sc cost. unfold ranking_payoffs. rewrite !tab2_nth by assumption. split; reflexivity. Qed.

(* unit vector game: column j of player 0's payoff matrix is the unit vector e_{ones_ind[j]} *)
Lemma unit_vector_spec n ones i j : (i < n)%nat -> (j < n)%nat ->
  nth j (nth i (unit_vector_payoff0 n ones) []) 0 = if (Z.of_nat i =? nth j ones (-1)%Z)%Z then 1 else 0.
Proof. intros Hi Hj. unfold unit_vector_payoff0. apply tab2_nth; assumption. Qed.

(* ------------------------------------------------------------------ tournament game payoff kernel (partial) *)
Lemma zrange_from_nth s n i : (i < n)%nat -> nth i (zrange_from s n) 0%Z = (s + Z.of_nat i)%Z.
Proof.
  revert s i. induction n as [|n IH]; intros s [|i] H; simpl; try lia.
  rewrite IH by lia. lia.
Qed.
Lemma zrange_from_length s n : length (zrange_from s n) = n.
Proof. revert s. induction n; intros s; simpl; auto. Qed.

Lemma indicator_nth m hits c : (0 <= c < m)%Z ->
  nth (Z.to_nat c) (indicator m hits) 0 = if existsb (Z.eqb c) hits then 1 else 0.
Proof.
  intros Hc. unfold indicator, zrange.
  set (f := fun c0 : Z => if existsb (Z.eqb c0) hits then 1 else 0).
  rewrite (nth_indep _ 0 (f 0%Z)) by (rewrite map_length, zrange_from_length; lia).
  rewrite (map_nth f). rewrite zrange_from_nth by lia. unfold f.
  replace (0 + Z.of_nat (Z.to_nat c))%Z with c by lia. reflexivity.
Qed.

(* entry c of node i's row is 1 exactly when c is the k_array_rank_jit of the image, under the sorted
   out-neighbour list nb, of one of the position sets visited by the next_k_array walk over [0, d) *)
Lemma tg_payoff0_row_spec k m nb c : (0 <= c < m)%Z ->
  let d := Z.of_nat (length nb) in
  let ranks := map (fun a => k_array_rank_jit (map (fun t => zget nb t) a))
                   (k_walk (S (Z.to_nat (binomZ d k))) d (zrange k)) in
  nth (Z.to_nat c) (tg_payoff0_row k m nb) 0 =
    if (d <? k)%Z then 0 else if existsb (Z.eqb c) ranks then 1 else 0.
Proof.
  intros Hc d ranks. unfold tg_payoff0_row. fold d. destruct (d <? k)%Z.
  - rewrite indicator_nth by exact Hc. reflexivity.
  - rewrite indicator_nth by exact Hc. reflexivity.
Qed.

(* row j of the column player's matrix is the indicator of the j-th array of the next_k_array walk from [0..k-1] *)
Lemma tg_payoff1_spec n k m j v : (j < Z.to_nat m)%nat -> (0 <= v < n)%Z ->
  nth (Z.to_nat v) (nth j (tg_payoff1 n k m) []) 0 =
    if existsb (Z.eqb v) (nth j (iter_next (Z.to_nat m) (zrange k)) []) then 1 else 0.
Proof.
  intros Hj Hv. unfold tg_payoff1.
  rewrite (nth_indep _ [] (indicator n [])).
  2:{ rewrite map_length. clear -Hj. revert Hj. generalize (zrange k) (Z.to_nat m). intros X f. revert X j.
      induction f; intros X [|j] H; simpl in *; try lia. specialize (IHf (next_k_array X) j ltac:(lia)). lia. }
  rewrite (map_nth (indicator n)). apply indicator_nth. exact Hv.
Qed.

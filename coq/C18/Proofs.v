(* C18 lemmas *)
From Coq Require Import ZArith QArith List Bool Lia Lqa.
From QE Require Import Base.Num C16.Model C18.Model.
Import ListNotations.

Lemma updl_length {A} (a : list A) i v : length (updl a i v) = length a.
Proof. revert i. induction a; intros [|i]; simpl; auto. Qed.

(* C18, tournament_game payoff kernels = definition, using C16's combinatorial-number-system theorems *)
From Coq Require Import ZArith QArith List Bool Lia.
From QE Require Import Base.Num C16.Model C16.Proofs2 C18.Model C18.Proofs.
Import ListNotations.
Local Open Scope Z_scope.

(* ------------------------------------------------------------------ strictly increasing lists by index *)
Lemma sincr_lb x r : (forall y, In y r -> x < y) -> sincr r -> sincr (x :: r).
Proof. intros H Hs. destruct r as [|y r]; cbn; [tauto|]. split; [apply H; left; reflexivity | exact Hs]. Qed.

Lemma sincr_all_gt x r : sincr (x :: r) -> forall y, In y r -> x < y.
Proof.
  revert x. induction r as [|z r IH]; intros x Hs y Hy; [destruct Hy|].
  apply sincr_cons2 in Hs. destruct Hs as [Hxz Hs]. destruct Hy as [<-|Hy]; [exact Hxz|].
  specialize (IH z Hs y Hy). lia.
Qed.

Lemma sincr_nth l : sincr l -> forall p q, (p < q < length l)%nat -> nth p l 0 < nth q l 0.
Proof.
  induction l as [|x r IH]; intros Hs p q H; [simpl in H; lia|].
  destruct q as [|q]; [lia|]. destruct p as [|p].
  - simpl. apply (sincr_all_gt x r Hs). apply nth_In. simpl in H. lia.
  - simpl. apply IH; [eapply sincr_tail; eauto | simpl in H; lia].
Qed.

Lemma sincr_of_nth l : (forall p, (S p < length l)%nat -> nth p l 0 < nth (S p) l 0) -> sincr l.
Proof.
  induction l as [|x r IH]; intros H; [exact I|].
  destruct r as [|y r]; [cbn; tauto|]. apply sincr_cons2. split.
  - apply (H 0%nat). simpl. lia.
  - apply IH. intros p Hp. apply (H (S p)). simpl in *. lia.
Qed.

Lemma sincr_NoDup l : sincr l -> NoDup l.
Proof.
  induction l as [|x r IH]; intros Hs; constructor.
  - intro Hin. pose proof (sincr_all_gt x r Hs x Hin). lia.
  - apply IH. eapply sincr_tail; eauto.
Qed.

Lemma hd_In (l : list Z) : l <> [] -> In (hd 0 l) l.
Proof. destruct l; [congruence|]. left. reflexivity. Qed.
Lemma last_In (l : list Z) : l <> [] -> In (last l 0) l.
Proof.
  induction l as [|x r IH]; [congruence|]. intros _. destruct r as [|y r]; [left; reflexivity|].
  right. apply IH. congruence.
Qed.

(* all entries of a strictly increasing list lie between its head and its last entry *)
Lemma sincr_range l x : sincr l -> In x l -> hd 0 l <= x <= last l 0.
Proof.
  induction l as [|y r IH]; intros Hs Hin; [destruct Hin|].
  destruct Hin as [<-|Hin].
  - split; [simpl; lia|]. apply (sincr_hd_le_last (y :: r)); [congruence | exact Hs].
  - pose proof (sincr_all_gt y r Hs x Hin). destruct r as [|z r]; [destruct Hin|].
    specialize (IH (sincr_tail _ _ Hs) Hin). change (last (y :: z :: r) 0) with (last (z :: r) 0).
    simpl hd. lia.
Qed.

(* position of x in l *)
Fixpoint zindex (x : Z) (l : list Z) : Z :=
  match l with [] => 0 | y :: r => if x =? y then 0 else 1 + zindex x r end.
Lemma zindex_spec x l : In x l -> 0 <= zindex x l < Z.of_nat (length l) /\ zget l (zindex x l) = x.
Proof.
  induction l as [|y r IH]; intros Hin; [destruct Hin|]. cbn [zindex].
  destruct (Z.eqb_spec x y) as [->|Hne].
  - split; [simpl length; lia | reflexivity].
  - destruct Hin as [E|Hin]; [congruence|]. destruct (IH Hin) as [R E]. split; [simpl length; lia|].
    unfold zget in *. replace (Z.to_nat (1 + zindex x r)) with (S (Z.to_nat (zindex x r))) by lia. exact E.
Qed.

Section Row.
Variables (k : nat) (n : Z) (nb : list Z).
Hypothesis Hk : (1 <= k)%nat.
Hypothesis Hs : sincr nb.
Hypothesis Hr : Forall (fun v => 0 <= v < n) nb.
(* int64 guard of C16 (no comb_jit product overflows for k-subsets of [0,n)): see C16_k_array_rank_jit_eq *)
Hypothesis Hguard : forall Y, k_array k Y -> last Y 0 < n -> k_array_rank_jit Y = k_array_rank Y.
Let d := Z.of_nat (length nb).

Lemma karray_nonempty a : k_array k a -> a <> [].
Proof. intros [L _] E. subst a. simpl in L. lia. Qed.

Lemma karray_range a x : k_array k a -> last a 0 < d -> In x a -> 0 <= x < d.
Proof. intros [_ [_ [Sa H0]]] Hl Hin. pose proof (sincr_range a x Sa Hin). lia. Qed.

(* image of a position set under the sorted neighbour list *)
Lemma image_karray a : k_array k a -> last a 0 < d ->
  k_array k (map (zget nb) a) /\ last (map (zget nb) a) 0 < n /\ Forall (fun v => In v nb) (map (zget nb) a).
Proof.
  intros Ha Hl. pose proof (karray_nonempty a Ha) as Hne.
  assert (Hin : Forall (fun v => In v nb) (map (zget nb) a)).
  { apply Forall_forall. intros v Hv. apply in_map_iff in Hv. destruct Hv as [x [<- Hx]].
    pose proof (karray_range a x Ha Hl Hx). unfold zget. apply nth_In. unfold d in *. lia. }
  assert (Hne' : map (zget nb) a <> []) by (destruct a; [congruence | discriminate]).
  rewrite Forall_forall in Hin, Hr.
  split; [|split].
  - destruct Ha as [L [_ [Sa H0]]]. split; [rewrite map_length; exact L|]. split; [exact Hk|]. split.
    + apply sincr_of_nth. intros p Hp. rewrite map_length in Hp.
      rewrite !(nth_indep (map (zget nb) a) 0 (zget nb 0)) by (rewrite map_length; lia).
      rewrite !map_nth.
      assert (Ia : In (nth p a 0) a) by (apply nth_In; lia).
      assert (Ib : In (nth (S p) a 0) a) by (apply nth_In; lia).
      pose proof (sincr_range a _ Sa Ia). pose proof (sincr_range a _ Sa Ib).
      pose proof (sincr_nth a Sa p (S p) ltac:(lia)).
      unfold zget. apply sincr_nth; [exact Hs|]. unfold d in *. lia.
    + apply Hr. apply Hin. apply hd_In. exact Hne'.
  - apply Hr. apply Hin. apply last_In. exact Hne'.
  - apply Forall_forall. exact Hin.
Qed.

(* every k-subset of the neighbours is the image of a position set *)
Lemma preimage_karray X : k_array k X -> Forall (fun v => In v nb) X ->
  exists a, k_array k a /\ last a 0 < d /\ map (zget nb) a = X.
Proof.
  intros [L [_ [Sa H0]]] Hin. rewrite Forall_forall in Hin.
  exists (map (fun x => zindex x nb) X).
  assert (Hne : X <> []) by (intro E; rewrite E in L; simpl in L; lia).
  assert (Hne' : map (fun x => zindex x nb) X <> []) by (destruct X; [congruence | discriminate]).
  assert (Hrange : forall y, In y (map (fun x => zindex x nb) X) -> 0 <= y < d).
  { intros y Hy. apply in_map_iff in Hy. destruct Hy as [x [<- Hx]]. apply zindex_spec. apply Hin. exact Hx. }
  split; [|split].
  - split; [rewrite map_length; exact L|]. split; [exact Hk|]. split.
    + apply sincr_of_nth. intros p Hp. rewrite map_length in Hp.
      rewrite !(nth_indep (map (fun x => zindex x nb) X) 0 ((fun x => zindex x nb) 0)) by (rewrite map_length; lia).
      rewrite !(map_nth (fun x => zindex x nb)).
      set (x := nth p X 0). set (y := nth (S p) X 0).
      assert (Ix : In x nb) by (apply Hin, nth_In; lia). assert (Iy : In y nb) by (apply Hin, nth_In; lia).
      destruct (zindex_spec x nb Ix) as [Rx Ex]. destruct (zindex_spec y nb Iy) as [Ry Ey].
      assert (Hxy : x < y) by (apply sincr_nth; [exact Sa | lia]).
      destruct (Z_lt_le_dec (zindex x nb) (zindex y nb)) as [?|Hge]; [assumption|]. exfalso.
      destruct (Z.eq_dec (zindex x nb) (zindex y nb)) as [E|Hne2]; [rewrite E in Ex; lia|].
      assert (zget nb (zindex y nb) < zget nb (zindex x nb)) by (unfold zget; apply sincr_nth; [exact Hs | lia]). lia.
    + apply Hrange. apply hd_In. exact Hne'.
  - apply Hrange. apply last_In. exact Hne'.
  - rewrite map_map. rewrite <- (map_id X) at 2. apply map_ext_in. intros x Hx. apply zindex_spec. apply Hin. exact Hx.
Qed.

Lemma rank_range X : k_array k X -> last X 0 < n -> 0 <= k_array_rank X < binomZ n (Z.of_nat k).
Proof.
  intros HX Hl. split; [|apply (rank_lt_iff k X n HX); exact Hl].
  destruct HX as [_ [_ [_ H0]]]. rewrite k_array_rank_rk by exact H0. apply rk_nonneg.
Qed.

(* entry rank(X) of the row of a node with sorted out-neighbour list nb *)
Lemma tg_row_entry X : k_array k X -> last X 0 < n ->
  nth (Z.to_nat (k_array_rank X)) (tg_payoff0_row (Z.of_nat k) (binomZ n (Z.of_nat k)) nb) 0%Q =
    if forallb (fun v => existsb (Z.eqb v) nb) X then 1%Q else 0%Q.
Proof.
  intros HX Hl. pose proof (rank_range X HX Hl) as Rc.
  rewrite tg_payoff0_row_spec by exact Rc. cbv zeta. fold d.
  destruct (Z.ltb_spec d (Z.of_nat k)) as [Hdk|Hdk].
  - (* fewer than k neighbours: X cannot be dominated *)
    destruct (forallb (fun v => existsb (Z.eqb v) nb) X) eqn:F; [|reflexivity]. exfalso.
    rewrite forallb_forall in F.
    assert (Hincl : incl X nb).
    { intros v Hv. specialize (F v Hv). apply existsb_exists in F. destruct F as [u [Hu E]]. apply Z.eqb_eq in E. subst. exact Hu. }
    destruct HX as [L [_ [Sa _]]]. pose proof (NoDup_incl_length (sincr_NoDup X Sa) Hincl). unfold d in Hdk. lia.
  - destruct (k_walk_enumerates k d (S (Z.to_nat (binomZ d (Z.of_nat k)))) Hk ltac:(lia)) as [_ [Hw _]].
    set (walk := k_walk (S (Z.to_nat (binomZ d (Z.of_nat k)))) d (zrange (Z.of_nat k))) in *.
    destruct (forallb (fun v => existsb (Z.eqb v) nb) X) eqn:F.
    + rewrite forallb_forall in F.
      assert (Hin : Forall (fun v => In v nb) X).
      { apply Forall_forall. intros v Hv. specialize (F v Hv). apply existsb_exists in F.
        destruct F as [u [Hu E]]. apply Z.eqb_eq in E. subst. exact Hu. }
      destruct (preimage_karray X HX Hin) as [a [Ha [Hla Ea]]].
      replace (existsb _ _) with true; [reflexivity|]. symmetry. apply existsb_exists.
      exists (k_array_rank X). split; [|apply Z.eqb_refl].
      apply in_map_iff. exists a. split; [change (map (fun t => zget nb t) a) with (map (zget nb) a); rewrite Ea; apply Hguard; assumption | apply Hw; split; assumption].
    + replace (existsb _ _) with false; [reflexivity|]. symmetry. apply not_true_is_false. intro E.
      apply existsb_exists in E. destruct E as [c [Hc Ec]]. apply Z.eqb_eq in Ec. subst c.
      apply in_map_iff in Hc. destruct Hc as [a [Ea Ha]]. apply Hw in Ha. destruct Ha as [Ha Hla].
      destruct (image_karray a Ha Hla) as [HY [HlY HinY]].
      change (map (fun t => zget nb t) a) with (map (zget nb) a) in Ea. rewrite Hguard in Ea by assumption.
      assert (EX : map (zget nb) a = X) by (eapply rank_injective; eauto).
      rewrite <- EX in F. apply not_true_iff_false in F. apply F. apply forallb_forall. intros v Hv.
      rewrite Forall_forall in HinY. apply existsb_exists. exists v. split; [apply HinY; exact Hv | apply Z.eqb_refl].
Qed.
End Row.

(* ------------------------------------------------------------------ the column player's matrix *)
Lemma iter_next_nth k : (1 <= k)%nat -> forall fuel X j, k_array k X -> (j < fuel)%nat ->
  k_array k (nth j (iter_next fuel X) []) /\ k_array_rank (nth j (iter_next fuel X) []) = k_array_rank X + Z.of_nat j.
Proof.
  intros Hk. induction fuel as [|f IH]; intros X j HX Hj; [lia|]. simpl iter_next.
  destruct j as [|j]; [simpl; split; [exact HX | lia]|].
  destruct (next_k_array_succ k X HX) as [HX' Hr]. destruct (IH (next_k_array X) j HX' ltac:(lia)) as [A B].
  simpl nth. split; [exact A | lia].
Qed.

Lemma tg_payoff1_entry n k X v : (1 <= k)%nat -> k_array k X -> last X 0 < n -> 0 <= v < n ->
  nth (Z.to_nat v) (nth (Z.to_nat (k_array_rank X)) (tg_payoff1 n (Z.of_nat k) (binomZ n (Z.of_nat k))) []) 0%Q =
    if existsb (Z.eqb v) X then 1%Q else 0%Q.
Proof.
  intros Hk HX Hl Hv.
  assert (Rc : 0 <= k_array_rank X < binomZ n (Z.of_nat k)).
  { split; [|apply (rank_lt_iff k X n HX); exact Hl].
    destruct HX as [_ [_ [_ H0]]]. rewrite k_array_rank_rk by exact H0. apply rk_nonneg. }
  rewrite tg_payoff1_spec by lia.
  destruct (iter_next_nth k Hk (Z.to_nat (binomZ n (Z.of_nat k))) (zrange (Z.of_nat k)) (Z.to_nat (k_array_rank X))
              (k_array_zrange k Hk) ltac:(lia)) as [A B].
  rewrite rank_zrange in B by exact Hk.
  assert (E : nth (Z.to_nat (k_array_rank X)) (iter_next (Z.to_nat (binomZ n (Z.of_nat k))) (zrange (Z.of_nat k))) [] = X).
  { eapply rank_injective; eauto. lia. }
  rewrite E. reflexivity.
Qed.

(* ------------------------------------------------------------------ neighbour lists of the sampled tournament *)
Lemma forallb_ext_in' {A} (f g : A -> bool) l : (forall x, In x l -> f x = g x) -> forallb f l = forallb g l.
Proof. induction l; simpl; intros H; [reflexivity|]. rewrite H by (left; reflexivity). rewrite IHl; [reflexivity|]. intros; apply H; right; assumption. Qed.

Lemma filter_seq_sincr f : forall len s, sincr (map Z.of_nat (filter f (seq s len))).
Proof.
  induction len as [|len IH]; intros s; [exact I|]. simpl. destruct (f s); [|apply IH].
  simpl. apply sincr_lb; [|apply IH]. intros y Hy. apply in_map_iff in Hy. destruct Hy as [u [<- Hu]].
  apply filter_In in Hu. destruct Hu as [Hu _]. apply in_seq in Hu. lia.
Qed.

Lemma nbrs_spec n edges i : sincr (nbrs n edges i) /\ Forall (fun v => 0 <= v < Z.of_nat n) (nbrs n edges i) /\
  forall v, 0 <= v < Z.of_nat n ->
    existsb (Z.eqb v) (nbrs n edges i) = existsb (fun e => Nat.eqb (fst e) i && Nat.eqb (snd e) (Z.to_nat v)) edges.
Proof.
  unfold nbrs. split; [apply filter_seq_sincr|]. split.
  - apply Forall_forall. intros v Hv. apply in_map_iff in Hv. destruct Hv as [u [<- Hu]].
    apply filter_In in Hu. destruct Hu as [Hu _]. apply in_seq in Hu. lia.
  - intros v Hv.
    set (f := fun j => existsb (fun e => Nat.eqb (fst e) i && Nat.eqb (snd e) j) edges).
    change (existsb (fun e : nat * nat => Nat.eqb (fst e) i && Nat.eqb (snd e) (Z.to_nat v)) edges) with (f (Z.to_nat v)).
    destruct (f (Z.to_nat v)) eqn:E.
    + apply existsb_exists. exists v. split; [|apply Z.eqb_refl]. apply in_map_iff. exists (Z.to_nat v).
      split; [lia|]. apply filter_In. split; [apply in_seq; lia | exact E].
    + apply not_true_is_false. intro H. apply existsb_exists in H. destruct H as [u [Hu Eu]]. apply Z.eqb_eq in Eu. subst u.
      apply in_map_iff in Hu. destruct Hu as [w [Ew Hw]]. apply filter_In in Hw. destruct Hw as [_ Hw].
      replace (Z.to_nat v) with w in E by lia. fold f in Hw. congruence.
Qed.

(* tournament_game payoffs = definition: the row player's entry [i][rank X] is 1 iff node i dominates every
   node of the k-subset X (the rank(X)-th subset in combinatorial-number-system order), the column player's
   entry [rank X][v] is 1 iff v is in X *)
Theorem tournament_payoff_spec n k rs i X :
  (1 <= k)%nat -> (i < n)%nat ->
  (forall Y, k_array k Y -> last Y 0 < Z.of_nat n -> k_array_rank_jit Y = k_array_rank Y) ->
  k_array k X -> last X 0 < Z.of_nat n ->
  let edges := tournament_edges n rs in
  let c := Z.to_nat (k_array_rank X) in
  0 <= k_array_rank X < binomZ (Z.of_nat n) (Z.of_nat k) /\
  nth c (nth i (fst (tournament_game n k rs)) []) 0%Q =
    (if forallb (fun v => existsb (fun e => Nat.eqb (fst e) i && Nat.eqb (snd e) (Z.to_nat v)) edges) X then 1%Q else 0%Q) /\
  forall v, 0 <= v < Z.of_nat n ->
    nth (Z.to_nat v) (nth c (snd (tournament_game n k rs)) []) 0%Q = if existsb (Z.eqb v) X then 1%Q else 0%Q.
Proof.
  intros Hk Hi Hguard HX Hl edges c.
  split; [eapply rank_range; eassumption|]. split.
  - unfold tournament_game. cbn [fst]. fold edges.
    rewrite (nth_indep _ [] ((fun i0 => tg_payoff0_row (Z.of_nat k) (binomZ (Z.of_nat n) (Z.of_nat k)) (nbrs n edges i0)) 0%nat))
      by (rewrite map_length, seq_length; exact Hi).
    rewrite (map_nth (fun i0 => tg_payoff0_row (Z.of_nat k) (binomZ (Z.of_nat n) (Z.of_nat k)) (nbrs n edges i0))).
    rewrite seq_nth by exact Hi. simpl Nat.add.
    destruct (nbrs_spec n edges i) as [Sa [R E]].
    unfold c. rewrite (tg_row_entry k (Z.of_nat n) (nbrs n edges i) Hk Sa R Hguard X HX Hl) || fail "sig".
    erewrite forallb_ext_in'; [reflexivity|].
    intros v Hv. apply E. destruct HX as [_ [_ [SX H0]]]. pose proof (sincr_range X v SX Hv). lia.
  - intros v Hv. unfold tournament_game. cbn [snd]. unfold c. apply tg_payoff1_entry; assumption.
Qed.
